//! C04 — rational arithmetic is exact and RBig stays in lowest terms.
//!
//! Sweeps: closed universe Q(N,D)² for + - * / % (all six call forms), Euclidean division, RBig and Relaxed (every stored non-reduced spelling); Q x integers for the mixed
//! operators on either side (UBig and IBig, four call forms); unary functions, pow and the
//! constructors; shape fractions with shared multi-word factors in every placement; histories
//! (BFS over a pool of two rationals and one integer, results fed back through in-place forms).
//! Oracle: exact fractions over num_bigint (`h04::Q`), cross-checked against checked i128
//! arithmetic.  Invariants of every RBig produced: denominator >= 1, gcd = 1, zero = 0/1.

#[path = "h04.rs"]
mod h04;

use crate::core::{guard, is_internal_panic, trunc, Ctx, Rec};
use crate::h::unflatten;
use crate::uni::*;
use dashu_base::{Abs, DivEuclid, DivRemEuclid, Inverse, RemEuclid, Sign};
use dashu_int::{DoubleWord, IBig, UBig};
use dashu_ratio::{RBig, Relaxed};
use h04::*;
use num_bigint::BigInt;
use num_integer::Integer;
use num_traits::{One, Signed, ToPrimitive, Zero};

const P: &str = "C04";

type Forms<T> = Vec<(&'static str, Result<T, String>)>;
/// (integer type, integer on the left?, form, result)
type MixForms<T> = Vec<(&'static str, bool, &'static str, Result<T, String>)>;

const OPS: [&str; 5] = ["add", "sub", "mul", "div", "rem"];
const SYM: [&str; 5] = ["+", "-", "*", "/", "%"];

macro_rules! six {
    ($a:ident, $b:ident, $o:tt, $oa:tt) => {
        vec![
            ("(val,val)", guard(|| $a.clone() $o $b.clone())),
            ("(val,ref)", guard(|| $a.clone() $o $b)),
            ("(ref,val)", guard(|| $a $o $b.clone())),
            ("(ref,ref)", guard(|| $a $o $b)),
            ("_assign(val)", guard(|| { let mut t = $a.clone(); t $oa $b.clone(); t })),
            ("_assign(ref)", guard(|| { let mut t = $a.clone(); t $oa $b; t })),
        ]
    };
}
macro_rules! four {
    ($out:ident, $ty:expr, $left:expr, $l:ident, $r:ident, $o:tt) => {
        $out.push(($ty, $left, "(val,val)", guard(|| $l.clone() $o $r.clone())));
        $out.push(($ty, $left, "(val,ref)", guard(|| $l.clone() $o $r)));
        $out.push(($ty, $left, "(ref,val)", guard(|| $l $o $r.clone())));
        $out.push(($ty, $left, "(ref,ref)", guard(|| $l $o $r)));
    };
}
macro_rules! four_m {
    ($l:ident, $r:ident, $m:ident) => {
        vec![
            ("(val,val)", guard(|| $l.clone().$m($r.clone()))),
            ("(val,ref)", guard(|| $l.clone().$m($r))),
            ("(ref,val)", guard(|| $l.$m($r.clone()))),
            ("(ref,ref)", guard(|| $l.$m($r))),
        ]
    };
}

/// history transitions (see `history`)
#[derive(Clone, Copy, Debug, PartialEq, Eq)]
enum Tr {
    /// r[dst] = r[dst] op r[src], op in + - * / %
    RR(u8, u8, u8),
    /// r[slot] = r[slot] op k   (or k op r[slot] when the flag is set), op in + - * /
    RI(u8, u8, bool),
    /// r[slot] = f(r[slot]), f in neg inv sqr fract
    Un(u8, u8),
    /// k = trunc(r[slot]) | round(r[slot]) | r[0].div_euclid(r[1])
    K(u8, u8),
}
/// history: numerators, denominators and the integer are pruned above this many bits
const HCAP: u32 = 62;
const UN: [&str; 4] = ["neg", "inv", "sqr", "fract"];
const KN: [&str; 3] = ["trunc", "round", "div_euclid"];

trait Rat: Clone + Default + std::fmt::Debug {
    const NAME: &'static str;
    const STRICT: bool;
    fn mk(n: &BigInt, d: &BigInt) -> Self;
    fn parts(&self) -> (BigInt, BigInt);
    fn forms_rr(op: u8, a: &Self, b: &Self) -> Forms<Self>;
    fn forms_ri(op: u8, x: &Self, i: &IBig, left: bool) -> MixForms<Self>;
    fn forms_un(op: u8, x: &Self) -> Forms<Self>;
    fn forms_k(kind: u8, slot: usize, pool: &[Self; 2]) -> Forms<IBig>;
    fn forms_rem_euclid(a: &Self, b: &Self) -> Forms<Self>;
    fn forms_div_rem_euclid(a: &Self, b: &Self) -> Forms<(IBig, Self)>;
    fn pow(&self, e: usize) -> Self;
    fn cubic(&self) -> Self;
    fn abs_val(self) -> Self;
    fn signum(&self) -> Self;
    fn mul_sign(self, s: Sign) -> Self;
    fn ints(&self) -> [IBig; 4]; // floor ceil trunc round
    fn split(self) -> (IBig, Self);
    fn flags(&self) -> (bool, bool); // is_zero, is_one
    fn apply(pool: &mut [Self; 2], k: &mut IBig, tr: Tr);
}

macro_rules! impl_rat {
    ($T:ty, $name:expr, $strict:expr) => {
        impl Rat for $T {
            const NAME: &'static str = $name;
            const STRICT: bool = $strict;
            fn mk(n: &BigInt, d: &BigInt) -> Self {
                <$T>::from_parts(ref_to_i(n), ref_to_u(d.magnitude()))
            }
            fn parts(&self) -> (BigInt, BigInt) {
                (i_to_ref(self.numerator()), BigInt::from(u_to_ref(self.denominator())))
            }
            fn forms_rr(op: u8, a: &Self, b: &Self) -> Forms<Self> {
                match op {
                    0 => six!(a, b, +, +=),
                    1 => six!(a, b, -, -=),
                    2 => six!(a, b, *, *=),
                    3 => six!(a, b, /, /=),
                    _ => six!(a, b, %, %=),
                }
            }
            fn forms_ri(op: u8, x: &Self, i: &IBig, left: bool) -> MixForms<Self> {
                let mut out: MixForms<Self> = Vec::with_capacity(8);
                let u: Option<UBig> = if i.sign() == Sign::Positive { Some(i.clone().try_into().unwrap()) } else { None };
                match (op, left) {
                    (0, false) => { four!(out, "IBig", false, x, i, +); if let Some(u) = &u { four!(out, "UBig", false, x, u, +); } }
                    (1, false) => { four!(out, "IBig", false, x, i, -); if let Some(u) = &u { four!(out, "UBig", false, x, u, -); } }
                    (2, false) => { four!(out, "IBig", false, x, i, *); if let Some(u) = &u { four!(out, "UBig", false, x, u, *); } }
                    (_, false) => { four!(out, "IBig", false, x, i, /); if let Some(u) = &u { four!(out, "UBig", false, x, u, /); } }
                    (0, true) => { four!(out, "IBig", true, i, x, +); if let Some(u) = &u { four!(out, "UBig", true, u, x, +); } }
                    (1, true) => { four!(out, "IBig", true, i, x, -); if let Some(u) = &u { four!(out, "UBig", true, u, x, -); } }
                    (2, true) => { four!(out, "IBig", true, i, x, *); if let Some(u) = &u { four!(out, "UBig", true, u, x, *); } }
                    (_, true) => { four!(out, "IBig", true, i, x, /); if let Some(u) = &u { four!(out, "UBig", true, u, x, /); } }
                }
                out
            }
            fn forms_un(op: u8, x: &Self) -> Forms<Self> {
                match op {
                    0 => vec![("(val)", guard(|| -x.clone())), ("(ref)", guard(|| -x))],
                    1 => vec![("(val)", guard(|| x.clone().inv())), ("(ref)", guard(|| x.inv()))],
                    2 => vec![("", guard(|| x.sqr()))],
                    _ => vec![("", guard(|| x.fract()))],
                }
            }
            fn forms_k(kind: u8, slot: usize, pool: &[Self; 2]) -> Forms<IBig> {
                let (a, b) = (&pool[0], &pool[1]);
                match kind {
                    0 => vec![("", guard(|| pool[slot].trunc()))],
                    1 => vec![("", guard(|| pool[slot].round()))],
                    _ => four_m!(a, b, div_euclid),
                }
            }
            fn forms_rem_euclid(a: &Self, b: &Self) -> Forms<Self> {
                four_m!(a, b, rem_euclid)
            }
            fn forms_div_rem_euclid(a: &Self, b: &Self) -> Forms<(IBig, Self)> {
                four_m!(a, b, div_rem_euclid)
            }
            fn pow(&self, e: usize) -> Self {
                <$T>::pow(self, e)
            }
            fn cubic(&self) -> Self {
                <$T>::cubic(self)
            }
            fn abs_val(self) -> Self {
                Abs::abs(self)
            }
            fn signum(&self) -> Self {
                <$T>::signum(self)
            }
            fn mul_sign(self, s: Sign) -> Self {
                self * s
            }
            fn ints(&self) -> [IBig; 4] {
                [self.floor(), self.ceil(), self.trunc(), self.round()]
            }
            fn split(self) -> (IBig, Self) {
                self.split_at_point()
            }
            fn flags(&self) -> (bool, bool) {
                (self.is_zero(), self.is_one())
            }
            fn apply(pool: &mut [Self; 2], k: &mut IBig, tr: Tr) {
                match tr {
                    Tr::RR(op, d, s) => {
                        let src = pool[s as usize].clone();
                        let dst = &mut pool[d as usize];
                        // by reference when the slots differ, by value when a slot meets itself
                        match (op, d == s) {
                            (0, false) => *dst += &src,
                            (1, false) => *dst -= &src,
                            (2, false) => *dst *= &src,
                            (3, false) => *dst /= &src,
                            (_, false) => *dst %= &src,
                            (0, true) => *dst += src,
                            (1, true) => *dst -= src,
                            (2, true) => *dst *= src,
                            (3, true) => *dst /= src,
                            (_, true) => *dst %= src,
                        }
                    }
                    Tr::RI(op, s, left) => {
                        let v = std::mem::take(&mut pool[s as usize]);
                        pool[s as usize] = match (op, left) {
                            (0, false) => v + &*k,
                            (1, false) => v - &*k,
                            (2, false) => v * &*k,
                            (_, false) => v / &*k,
                            (0, true) => &*k + v,
                            (1, true) => &*k - v,
                            (2, true) => &*k * v,
                            (_, true) => &*k / v,
                        };
                    }
                    Tr::Un(op, s) => {
                        let v = std::mem::take(&mut pool[s as usize]);
                        pool[s as usize] = match op {
                            0 => -v,
                            1 => v.inv(),
                            2 => v.sqr(),
                            _ => v.fract(),
                        };
                    }
                    Tr::K(kind, s) => {
                        *k = match kind {
                            0 => pool[s as usize].trunc(),
                            1 => pool[s as usize].round(),
                            _ => (&pool[0]).div_euclid(&pool[1]),
                        };
                    }
                }
            }
        }
    };
}
impl_rat!(RBig, "RBig", true);
impl_rat!(Relaxed, "Relaxed", false);

fn dbg<T: std::fmt::Debug>(v: &T) -> String {
    guard(|| trunc(&format!("{:?}", v), 300)).unwrap_or_else(|p| format!("<Debug panicked: {}>", p))
}

fn show_parts(n: &BigInt, d: &BigInt) -> String {
    format!("{}/{}", num(n), num(d))
}

/// Judge one rational result given as (numerator, denominator) read through the accessors.
#[allow(clippy::too_many_arguments)]
fn judge_parts(rec: &mut Rec, tname: &str, strict: bool, site: &dyn Fn() -> String, class: &str, got: Result<(BigInt, BigInt), String>, want: &Q, case: &dyn Fn() -> String) -> bool {
    rec.step();
    let (n, d) = match got {
        Ok(x) => x,
        Err(p) => {
            let kind = if is_internal_panic(&p) { "internal-panic" } else { "panic" };
            rec.fail(format!("{}|{}|{}|{}", P, site(), kind, class), case(), format!("panic: {}", p), want.show());
            return false;
        }
    };
    let _ = tname;
    if d.is_zero() {
        rec.fail(format!("{}|{}|zero-denominator|{}", P, site(), class), case(), show_parts(&n, &d), want.show());
        return false;
    }
    if n == want.n && d == want.d {
        // identical to the normalised reference: right value, lowest terms, positive denominator
        return true;
    }
    if &n * &want.d != &want.n * &d {
        rec.fail(format!("{}|{}|wrong-value|{}", P, site(), class), case(), show_parts(&n, &d), want.show());
        return false;
    }
    // right value in a spelling other than the canonical one
    if strict {
        let kind = if n.is_zero() { "zero-not-0/1" } else { "not-reduced" };
        rec.fail(format!("{}|{}|{}|{}", P, site(), kind, class), case(), show_parts(&n, &d), format!("{} (lowest terms, zero as 0/1)", show_parts(&want.n, &want.d)));
        return false;
    }
    if n.is_zero() {
        rec.hit("unspecified:Relaxed zero stored as 0/d, d>1 (not judged)");
    } else {
        if n.is_even() && d.is_even() {
            rec.hit("unspecified:Relaxed result keeps a common factor 2 (not judged)");
        }
        rec.hit("relaxed:result-stored-unreduced");
    }
    true
}

fn judge<T: Rat>(rec: &mut Rec, site: &dyn Fn() -> String, class: &str, got: &Result<T, String>, want: &Q, case: &dyn Fn() -> String) -> bool {
    judge_parts(rec, T::NAME, T::STRICT, site, class, got.as_ref().map(|v| v.parts()).map_err(|e| e.clone()), want, case)
}

fn judge_int(rec: &mut Rec, site: &dyn Fn() -> String, class: &str, got: &Result<IBig, String>, want: &BigInt, case: &dyn Fn() -> String) -> bool {
    rec.step();
    match got {
        Ok(g) => {
            let g = i_to_ref(g);
            if &g != want {
                rec.fail(format!("{}|{}|wrong-value|{}", P, site(), class), case(), num(&g), num(want));
                return false;
            }
            true
        }
        Err(p) => {
            let kind = if is_internal_panic(p) { "internal-panic" } else { "panic" };
            rec.fail(format!("{}|{}|{}|{}", P, site(), kind, class), case(), format!("panic: {}", p), num(want));
            false
        }
    }
}

/// division by zero must panic with the documented message, not an internal assertion
fn expect_div0<T: std::fmt::Debug>(rec: &mut Rec, site: &dyn Fn() -> String, _class: &str, got: &Result<T, String>, case: &dyn Fn() -> String) -> bool {
    // the input class of a division by zero is the zero divisor itself, whatever the universe
    let class = "zero-divisor";
    rec.step();
    match got {
        Ok(v) => {
            rec.fail(format!("{}|{}|missing-panic|{}", P, site(), class), case(), format!("returned {}", dbg(v)), "panic (division by zero)");
            false
        }
        Err(p) => {
            if is_internal_panic(p) {
                rec.fail(format!("{}|{}|internal-panic|{}", P, site(), class), case(), format!("panic: {}", p), "the documented division-by-zero panic, not an internal assertion/overflow");
                return false;
            }
            true
        }
    }
}

/// judge every call form of one operation; only the first failing form of a case is reported
fn check_forms<T: Rat>(rec: &mut Rec, op: &str, class: &str, forms: Forms<T>, want: &Option<Q>, case: &dyn Fn() -> String) -> bool {
    for (f, got) in &forms {
        let site = || format!("{}::{}{}", T::NAME, op, f);
        let ok = match want {
            Some(w) => judge::<T>(rec, &site, class, got, w, case),
            None => expect_div0(rec, &site, class, got, case),
        };
        if !ok {
            return false;
        }
    }
    true
}

fn check_mix<T: Rat>(rec: &mut Rec, op: &str, class: &str, forms: MixForms<T>, want: &Option<Q>, case: &dyn Fn() -> String) -> bool {
    for (ity, left, f, got) in &forms {
        let site = || if *left { format!("{}::{}<{}>{}", ity, op, T::NAME, f) } else { format!("{}::{}<{}>{}", T::NAME, op, ity, f) };
        let ok = match want {
            Some(w) => judge::<T>(rec, &site, class, got, w, case),
            None => expect_div0(rec, &site, class, got, case),
        };
        if !ok {
            return false;
        }
    }
    true
}

fn check_int_forms<T: Rat>(rec: &mut Rec, op: &str, class: &str, forms: Forms<IBig>, want: &Option<BigInt>, case: &dyn Fn() -> String) -> bool {
    for (f, got) in &forms {
        let site = || format!("{}::{}{}", T::NAME, op, f);
        let ok = match want {
            Some(w) => judge_int(rec, &site, class, got, w, case),
            None => expect_div0(rec, &site, class, got, case),
        };
        if !ok {
            return false;
        }
    }
    true
}

fn bin_wants(x: &Q, y: &Q) -> [Option<Q>; 5] {
    [Some(x.add(y)), Some(x.sub(y)), Some(x.mul(y)), x.div(y), x.rem(y)]
}

/// the five operators in all forms + Euclidean division on one lane
fn lane_binary<T: Rat>(rec: &mut Rec, a: &T, b: &T, x: &Q, y: &Q, wants: &[Option<Q>; 5], class: &str, all: bool, spelling: &str) {
    for op in 0..5u8 {
        let case = || format!("{} {} {}{}", x.show(), SYM[op as usize], y.show(), spelling);
        let mut forms = T::forms_rr(op, a, b);
        if !all {
            forms.truncate(4);
            forms.swap(0, 3);
            forms.truncate(2); // (ref,ref) and (val,ref)
        }
        check_forms::<T>(rec, OPS[op as usize], class, forms, &wants[op as usize], &case);
    }
    let qe = x.div_euclid(y);
    let re = x.rem_euclid(y);
    let case = || format!("{} (euclid) {}{}", x.show(), y.show(), spelling);
    let mut fk = T::forms_k(2, 0, &[a.clone(), b.clone()]);
    let mut fr = T::forms_rem_euclid(a, b);
    let mut fdr = T::forms_div_rem_euclid(a, b);
    if !all {
        fk.truncate(1);
        fr.truncate(1);
        fdr.truncate(1);
    }
    check_int_forms::<T>(rec, "div_euclid", class, fk, &qe, &case);
    check_forms::<T>(rec, "rem_euclid", class, fr, &re, &case);
    for (f, got) in &fdr {
        let site_q = || format!("{}::div_rem_euclid{}.0", T::NAME, f);
        let site_r = || format!("{}::div_rem_euclid{}.1", T::NAME, f);
        let ok = match (&qe, &re, got) {
            (Some(q), Some(r), Ok((gq, gr))) => judge_int(rec, &site_q, class, &Ok(gq.clone()), q, &case) && judge::<T>(rec, &site_r, class, &Ok(gr.clone()), r, &case),
            (Some(_), Some(r), Err(p)) => judge::<T>(rec, &site_r, class, &Err(p.clone()), r, &case),
            (_, _, got) => expect_div0(rec, &site_r, class, got, &case),
        };
        if !ok {
            break;
        }
    }
}

/// outcome classes of one operand pair, inferred from the reference by the same conditions as the
/// branches of add.rs / mul.rs / div.rs (read-only)
fn pair_classes(rec: &mut Rec, x: &Q, y: &Q, wants: &[Option<Q>; 5]) {
    let g = x.d.gcd(&y.d);
    if g.is_one() {
        rec.hit("add:gbd=1");
    } else {
        let nn = &x.n * (&y.d / &g) + &y.n * (&x.d / &g);
        if nn.is_zero() {
            rec.hit("add:gbd>1,zero-result");
        } else {
            let h = g.gcd(&nn);
            rec.hit(if h.is_one() { "add:gbd>1,hint-gcd=1" } else if h == g { "add:gbd>1,hint-gcd=gbd" } else { "add:gbd>1,1<hint-gcd<gbd" });
        }
    }
    if x == y {
        rec.hit("sub:zero-result");
    }
    if x.is_zero() || y.is_zero() {
        rec.hit("zero-numerator-operand");
    } else {
        let (g1, g2) = (x.n.gcd(&y.d), x.d.gcd(&y.n));
        rec.hit(match (g1.is_one(), g2.is_one()) {
            (true, true) => "mul:no-cross-cancel",
            (false, false) => "mul:cross-cancel-both",
            _ => "mul:cross-cancel-one",
        });
        let (g3, g4) = (x.n.gcd(&y.n), x.d.gcd(&y.d));
        rec.hit(match (g3.is_one(), g4.is_one()) {
            (true, true) => "div:no-cancel",
            (false, false) => "div:cancel-both",
            _ => "div:cancel-one",
        });
    }
    if y.is_zero() {
        rec.hit("div,rem:by-zero-panics");
    } else {
        if y.n.is_negative() {
            rec.hit("div:negative-divisor");
        }
        let r = wants[4].as_ref().unwrap();
        let t = wants[3].as_ref().unwrap();
        let two = BigInt::from(2);
        let twice: BigInt = &t.n * &two;
        if r.is_zero() {
            rec.hit("rem:zero");
        } else if t.d == BigInt::from(2) {
            rec.hit("rem:tie-rounds-away");
        } else if { let dd: BigInt = &twice - t.round_half_away() * &two * &t.d; dd.is_positive() } == t.n.is_positive() {
            rec.hit("rem:quotient-rounded-toward-zero");
        } else {
            rec.hit("rem:quotient-rounded-away");
        }
        if t.is_int() {
            rec.hit("euclid:exact");
        } else if x.n.is_negative() {
            rec.hit("euclid:negative-dividend");
        }
    }
    if x.is_int() || y.is_int() {
        rec.hit("integer-valued-operand");
    }
}

/// all reduced n/d with |n| <= nmax, 1 <= d <= dmax, simplest first
fn q_universe(nmax: i64, dmax: i64) -> Vec<Q> {
    let mut v: Vec<(i64, i64, i64, i64)> = vec![];
    for d in 1..=dmax {
        for n in -nmax..=nmax {
            if (n.unsigned_abs()).gcd(&(d as u64)) == 1 || (n == 0 && d == 1) {
                v.push((n.abs().max(d), d, n.abs(), if n < 0 { 1 } else { 0 }));
            }
        }
    }
    v.sort();
    v.into_iter().map(|(_, d, n, s)| Q::small(if s == 1 { -n } else { n }, d)).collect()
}

fn scaled(x: &Q, k: i64) -> (BigInt, BigInt) {
    (&x.n * k, &x.d * k)
}

fn self_check(ctx: &mut Ctx) {
    // literal anchors from the dashu documentation / test-suite conventions
    let lit = |a: (i64, i64), b: (i64, i64)| (Q::small(a.0, a.1), Q::small(b.0, b.1));
    let (a, b) = lit((-1, 2), (1, 3));
    let mut ok = a.rem(&b) == Some(Q::small(1, 6)) && a.div(&b) == Some(Q::small(-3, 2)) && a.add(&b) == Q::small(-1, 6);
    let (a, b) = lit((1, 2), (-2, 3));
    ok &= a.rem(&b) == Some(Q::small(-1, 6)) && a.div(&b) == Some(Q::small(-3, 4));
    let (a, b) = lit((-10, 9), (-15, 4));
    ok &= a.rem(&b) == Some(Q::small(-10, 9)) && a.div(&b) == Some(Q::small(8, 27)) && a.mul(&b) == Q::small(25, 6);
    ok &= Q::small(22, 7).round_half_away() == BigInt::from(3) && Q::small(-5, 2).round_half_away() == BigInt::from(-3) && Q::small(-7, 2).floor() == BigInt::from(-4) && Q::small(-7, 2).ceil() == BigInt::from(-3) && Q::small(-7, 2).trunc() == BigInt::from(-3);
    ok &= Q::small(-7, 2).div_euclid(&Q::small(-1, 1)) == Some(BigInt::from(4)) && Q::small(-7, 2).rem_euclid(&Q::small(-1, 1)) == Some(Q::small(1, 2));
    if !ok {
        ctx.machinery("reference self-check failed: Q disagrees with the documented literal cases");
    }
    // BigInt fractions vs checked-i128 fractions vs f64, gcd vs plain Euclid, on Q(9,9)^2
    let u = q_universe(9, 9);
    let mut bad = 0u64;
    for x in &u {
        for y in &u {
            let (rx, ry) = (x.to_r(100).unwrap(), y.to_r(100).unwrap());
            let f = |q: &Q| q.n.to_f64().unwrap() / q.d.to_f64().unwrap();
            let pairs: [(Option<Q>, Option<R>, f64); 3] = [(Some(x.add(y)), r_add(rx, ry), f(x) + f(y)), (Some(x.sub(y)), r_sub(rx, ry), f(x) - f(y)), (Some(x.mul(y)), r_mul(rx, ry), f(x) * f(y))];
            for (q, r, fl) in pairs {
                let q = q.unwrap();
                if Some(q.to_r(120).unwrap()) != r || (f(&q) - fl).abs() > 1e-9 || euclid_gcd(&q.n, &q.d) != BigInt::one() || q.d.is_negative() {
                    bad += 1;
                }
            }
            if !y.is_zero() {
                let (q, r) = (x.div(y).unwrap(), x.rem(y).unwrap());
                if Some(q.to_r(120).unwrap()) != r_div(rx, ry) || Some(r.to_r(120).unwrap()) != r_rem(rx, ry) || (f(&q) - f(x) / f(y)).abs() > 1e-9 {
                    bad += 1;
                }
                // definition of %: |r| <= |y|/2 and (x - r)/y is an integer
                if r.abs().mul(&Q::small(2, 1)).sub(&y.abs()).n.is_positive() || !x.sub(&r).div(y).unwrap().is_int() {
                    bad += 1;
                }
                let (qe, re) = (x.div_euclid(y).unwrap(), x.rem_euclid(y).unwrap());
                if re.n.is_negative() || !re.lt(&y.abs()) || Q::int(qe.clone()).mul(y).add(&re) != *x || qe.to_i128() != r_div_euclid(rx, ry) {
                    bad += 1;
                }
            }
            if x.n.gcd(&y.n) != euclid_gcd(&x.n, &y.n) {
                bad += 1;
            }
        }
    }
    if bad != 0 {
        ctx.machinery(format!("reference self-check failed: {} disagreements between BigInt fractions, i128 fractions, f64 and the definitions", bad));
    }
}

// ---- SWEEPS ----

fn nontrivial2(rec: &mut Rec, x: &Q, y: &Q) {
    if !(x.trivial() && y.trivial()) {
        rec.nontrivial();
    }
}

/// one ordered pair of the closed universe: RBig lane + every stored Relaxed spelling
fn closed_pair(rec: &mut Rec, x: &Q, y: &Q, ks: &[i64]) {
    let wants = bin_wants(x, y);
    let (a, b) = (RBig::mk(&x.n, &x.d), RBig::mk(&y.n, &y.d));
    lane_binary::<RBig>(rec, &a, &b, x, y, &wants, "closed", true, "");
    for &kx in ks {
        for &ky in ks {
            let ((xn, xd), (yn, yd)) = (scaled(x, kx), scaled(y, ky));
            let (ra, rb) = (Relaxed::mk(&xn, &xd), Relaxed::mk(&yn, &yd));
            let sp = if kx == 1 && ky == 1 { String::new() } else { format!(" [operands stored as {} and {}]", show_parts(&xn, &xd), show_parts(&yn, &yd)) };
            if kx > 1 || ky > 1 {
                rec.hit("relaxed:non-reduced-operand");
            }
            lane_binary::<Relaxed>(rec, &ra, &rb, x, y, &wants, "closed", true, &sp);
            // a Relaxed result canonicalized is an RBig "ever produced"
            for op in 0..4u8 {
                if let Some(w) = &wants[op as usize] {
                    let got = guard(|| {
                        let r = match op {
                            0 => &ra + &rb,
                            1 => &ra - &rb,
                            2 => &ra * &rb,
                            _ => &ra / &rb,
                        };
                        r.canonicalize()
                    });
                    judge::<RBig>(rec, &|| format!("Relaxed::{}+canonicalize", OPS[op as usize]), "closed", &got, w, &|| format!("({} {} {}){}.canonicalize()", x.show(), SYM[op as usize], y.show(), sp));
                }
            }
        }
    }
    pair_classes(rec, x, y, &wants);
    nontrivial2(rec, x, y);
}

/// rational (op) integer and integer (op) rational, both integer types, four call forms
fn mixed_case(rec: &mut Rec, x: &Q, i: &BigInt, ks: &[i64], class: &str) {
    let qi = Q::int(i.clone());
    let ii = ref_to_i(i);
    let right: [Option<Q>; 4] = [Some(x.add(&qi)), Some(x.sub(&qi)), Some(x.mul(&qi)), x.div(&qi)];
    let left: [Option<Q>; 4] = [Some(qi.add(x)), Some(qi.sub(x)), Some(qi.mul(x)), qi.div(x)];
    let a = RBig::mk(&x.n, &x.d);
    for op in 0..4u8 {
        let case_r = || format!("{} {} int {}", x.show(), SYM[op as usize], num(i));
        let case_l = || format!("int {} {} {}", num(i), SYM[op as usize], x.show());
        check_mix::<RBig>(rec, OPS[op as usize], class, RBig::forms_ri(op, &a, &ii, false), &right[op as usize], &case_r);
        check_mix::<RBig>(rec, OPS[op as usize], class, RBig::forms_ri(op, &a, &ii, true), &left[op as usize], &case_l);
        for &k in ks {
            let (xn, xd) = scaled(x, k);
            let ra = Relaxed::mk(&xn, &xd);
            let case_r = || format!("{} {} int {} [stored as {}]", x.show(), SYM[op as usize], num(i), show_parts(&xn, &xd));
            let case_l = || format!("int {} {} {} [stored as {}]", num(i), SYM[op as usize], x.show(), show_parts(&xn, &xd));
            check_mix::<Relaxed>(rec, OPS[op as usize], class, Relaxed::forms_ri(op, &ra, &ii, false), &right[op as usize], &case_r);
            check_mix::<Relaxed>(rec, OPS[op as usize], class, Relaxed::forms_ri(op, &ra, &ii, true), &left[op as usize], &case_l);
        }
    }
    if i.is_zero() {
        rec.hit("div-by-zero-integer-panics");
    }
    if x.is_zero() {
        rec.hit("integer/zero-rational-panics");
    }
    if !i.is_zero() && !x.is_zero() {
        if !x.d.gcd(i).is_one() {
            rec.hit("mul-int:gcd(den,int)>1");
        }
        if !x.n.gcd(i).is_one() {
            rec.hit("div-int:gcd(num,int)>1");
        }
        if i.is_negative() {
            rec.hit("negative-integer");
        }
    }
    if right[0].as_ref().unwrap().is_zero() || right[1].as_ref().unwrap().is_zero() {
        rec.hit("add/sub-int:zero-result");
    }
    if !(x.trivial() && i.abs() <= BigInt::one()) {
        rec.nontrivial();
    }
}

fn unary_lane<T: Rat>(rec: &mut Rec, v: &T, x: &Q, exps: &[usize], class: &str, sp: &str) {
    let case = |f: &str| format!("{}({}){}", f, x.show(), sp);
    check_forms::<T>(rec, "neg", class, T::forms_un(0, v), &Some(x.neg()), &|| case("neg"));
    check_forms::<T>(rec, "inv", class, T::forms_un(1, v), &x.inv(), &|| case("inv"));
    check_forms::<T>(rec, "sqr", class, T::forms_un(2, v), &Some(x.mul(x)), &|| case("sqr"));
    let fr = x.sub(&Q::int(x.trunc()));
    check_forms::<T>(rec, "fract", class, T::forms_un(3, v), &Some(fr.clone()), &|| case("fract"));
    check_forms::<T>(rec, "cubic", class, vec![("", guard(|| v.cubic()))], &Some(x.mul(x).mul(x)), &|| case("cubic"));
    check_forms::<T>(rec, "abs", class, vec![("", guard(|| v.clone().abs_val()))], &Some(x.abs()), &|| case("abs"));
    let sg = Q::int(x.n.signum());
    check_forms::<T>(rec, "signum", class, vec![("", guard(|| v.signum()))], &Some(sg), &|| case("signum"));
    check_forms::<T>(rec, "mul<Sign>", class, vec![("(Negative)", guard(|| v.clone().mul_sign(Sign::Negative)))], &Some(x.neg()), &|| case("* Sign::Negative"));
    check_forms::<T>(rec, "mul<Sign>", class, vec![("(Positive)", guard(|| v.clone().mul_sign(Sign::Positive)))], &Some(x.clone()), &|| case("* Sign::Positive"));
    for &e in exps {
        if x.is_zero() && e == 0 {
            rec.hit("unspecified:0^0 (not judged)");
            continue;
        }
        check_forms::<T>(rec, "pow", class, vec![("", guard(|| v.pow(e)))], &Some(x.pow(e as u32)), &|| format!("({}){}.pow({})", x.show(), sp, e));
    }
    // integer parts
    match guard(|| v.ints()) {
        Ok(g) => {
            let want = [x.floor(), x.ceil(), x.trunc(), x.round_half_away()];
            for (j, nm) in ["floor", "ceil", "trunc", "round"].iter().enumerate() {
                judge_int(rec, &|| format!("{}::{}", T::NAME, nm), class, &Ok(g[j].clone()), &want[j], &|| case(nm));
            }
        }
        Err(p) => rec.fail(format!("{}|{}::floor/ceil/trunc/round|panic|{}", P, T::NAME, class), case("floor.."), p, "integers"),
    }
    match guard(|| v.clone().split()) {
        Ok((t, f)) => {
            judge_int(rec, &|| format!("{}::split_at_point.0", T::NAME), class, &Ok(t), &x.trunc(), &|| case("split_at_point"));
            judge::<T>(rec, &|| format!("{}::split_at_point.1", T::NAME), class, &Ok(f), &fr, &|| case("split_at_point"));
        }
        Err(p) => rec.fail(format!("{}|{}::split_at_point|panic|{}", P, T::NAME, class), case("split_at_point"), p, "(trunc, fract)"),
    }
    rec.step();
    match guard(|| v.flags()) {
        Ok(fl) => {
            if fl != (x.is_zero(), x.n.is_one() && x.d.is_one()) {
                rec.fail(format!("{}|{}::is_zero/is_one|wrong-value|{}", P, T::NAME, class), case("is_zero,is_one"), format!("{:?}", fl), format!("{:?}", (x.is_zero(), x.n.is_one() && x.d.is_one())));
            }
        }
        Err(p) => rec.fail(format!("{}|{}::is_zero/is_one|panic|{}", P, T::NAME, class), case("is_zero,is_one"), p, "flags"),
    }
}

/// unary functions and constructors for one value
fn unary_case(rec: &mut Rec, x: &Q, exps: &[usize], kmax: i64) {
    let a = RBig::mk(&x.n, &x.d);
    unary_lane::<RBig>(rec, &a, x, exps, "closed", "");
    // accessors and into_parts must tell the same story
    rec.step();
    let (pn, pd) = a.clone().into_parts();
    if (i_to_ref(&pn), BigInt::from(u_to_ref(&pd))) != a.parts() {
        rec.fail(format!("{}|RBig::into_parts|accessor-mismatch|closed", P), x.show(), format!("{}/{}", pn, pd), format!("{:?}", a.parts()));
    }
    for k in 1..=kmax {
        let (xn, xd) = scaled(x, k);
        let sp = format!(" [built from {}]", show_parts(&xn, &xd));
        let case = || format!("from_parts({})", show_parts(&xn, &xd));
        // every constructor must reduce: RBig::from_parts, from_parts_signed (both denominator signs), from_parts_const
        judge::<RBig>(rec, &|| "RBig::from_parts".into(), "closed", &guard(|| RBig::mk(&xn, &xd)), x, &case);
        judge::<RBig>(rec, &|| "RBig::from_parts_signed".into(), "closed", &guard(|| RBig::from_parts_signed(ref_to_i(&xn), ref_to_i(&xd))), x, &case);
        judge::<RBig>(rec, &|| "RBig::from_parts_signed".into(), "closed", &guard(|| RBig::from_parts_signed(ref_to_i(&-&xn), ref_to_i(&-&xd))), x, &|| format!("from_parts_signed({}, {})", num(&-&xn), num(&-&xd)));
        let (cn, cd) = (xn.abs().to_u128().unwrap() as DoubleWord, xd.to_u128().unwrap() as DoubleWord);
        let sg = if xn.is_negative() { Sign::Negative } else { Sign::Positive };
        judge::<RBig>(rec, &|| "RBig::from_parts_const".into(), "closed", &guard(|| RBig::from_parts_const(sg, cn, cd)), x, &|| format!("from_parts_const({:?}, {}, {})", sg, cn, cd));
        judge::<Relaxed>(rec, &|| "Relaxed::from_parts_const".into(), "closed", &guard(|| Relaxed::from_parts_const(sg, cn, cd)), x, &|| format!("Relaxed::from_parts_const({:?}, {}, {})", sg, cn, cd));
        judge::<Relaxed>(rec, &|| "Relaxed::from_parts_signed".into(), "closed", &guard(|| Relaxed::from_parts_signed(ref_to_i(&-&xn), ref_to_i(&-&xd))), x, &case);
        let r = Relaxed::mk(&xn, &xd);
        judge::<RBig>(rec, &|| "Relaxed::canonicalize".into(), "closed", &guard(|| r.clone().canonicalize()), x, &|| format!("Relaxed {} canonicalize", show_parts(&xn, &xd)));
        if k == 2 {
            // spelling 2n/2d is removed by reduce2: the stored form must equal the k = 1 form
            rec.step();
            if r.parts() != Relaxed::mk(&x.n, &x.d).parts() {
                rec.hit("unspecified:Relaxed::from_parts keeps a common factor 2 (not judged)");
            } else {
                rec.hit("relaxed:from_parts-removes-factor-2");
            }
        } else {
            unary_lane::<Relaxed>(rec, &r, x, exps, "closed", &sp);
        }
    }
    judge::<Relaxed>(rec, &|| "RBig::relax".into(), "closed", &guard(|| a.clone().relax()), x, &|| format!("relax({})", x.show()));
    judge::<Relaxed>(rec, &|| "RBig::as_relaxed".into(), "closed", &guard(|| a.as_relaxed().clone()), x, &|| format!("as_relaxed({})", x.show()));
    if x.is_zero() {
        rec.hit("inv(0)-must-panic");
    }
    if x.is_int() {
        rec.hit("integer-valued");
    }
    if !x.trivial() {
        rec.nontrivial();
    }
}


/// shape fractions: cores a,b,c,d and a shared factor g placed so that the operands share g
/// between denominators / numerator and denominator / numerators
#[allow(clippy::too_many_arguments)]
fn shape_case(rec: &mut Rec, a: &BigInt, b: &BigInt, c: &BigInt, d: &BigInt, g: &BigInt, place: usize, sx: bool, sy: bool) {
    let (mut xn, mut xd, mut yn, mut yd) = (a.clone(), b.clone(), c.clone(), d.clone());
    match place {
        0 => { xd *= g; yd *= g; }
        1 => { xn *= g; yd *= g; }
        2 => { xd *= g; yn *= g; }
        _ => { xn *= g; yn *= g; }
    }
    if sx { xn = -xn; }
    if sy { yn = -yn; }
    let (x, y) = (Q::new(xn.clone(), xd.clone()), Q::new(yn.clone(), yd.clone()));
    let wmax = [&x.n, &x.d, &y.n, &y.d].iter().map(|v| word_len(v.magnitude())).max().unwrap();
    let class = format!("shape,{}", size_class(wmax));
    let class = class.as_str();
    let sp = format!(" [x built from {}, y from {}]", show_parts(&xn, &xd), show_parts(&yn, &yd));
    // RBig::from_parts must reduce the multi-word spelling
    let ra = guard(|| RBig::mk(&xn, &xd));
    let rb = guard(|| RBig::mk(&yn, &yd));
    judge::<RBig>(rec, &|| "RBig::from_parts".into(), class, &ra, &x, &|| format!("from_parts({})", show_parts(&xn, &xd)));
    judge::<RBig>(rec, &|| "RBig::from_parts".into(), class, &rb, &y, &|| format!("from_parts({})", show_parts(&yn, &yd)));
    let wants = bin_wants(&x, &y);
    // build the RBig operands from the reference's reduced parts so that a from_parts defect does
    // not mask the operators
    let (pa, pb) = (RBig::mk(&x.n, &x.d), RBig::mk(&y.n, &y.d));
    lane_binary::<RBig>(rec, &pa, &pb, &x, &y, &wants, class, false, "");
    // Relaxed operands keep the non-reduced spelling (only powers of two are removed)
    let (la, lb) = (Relaxed::mk(&xn, &xd), Relaxed::mk(&yn, &yd));
    lane_binary::<Relaxed>(rec, &la, &lb, &x, &y, &wants, class, false, &sp);
    // mixed with the integer c*g (shares g with x)
    let i = g * c * if sy { -BigInt::one() } else { BigInt::one() };
    if rec_wants_mixed(place) {
        let qi = Q::int(i.clone());
        let ii = ref_to_i(&i);
        let right: [Option<Q>; 4] = [Some(x.add(&qi)), Some(x.sub(&qi)), Some(x.mul(&qi)), x.div(&qi)];
        let left: [Option<Q>; 4] = [Some(qi.add(&x)), Some(qi.sub(&x)), Some(qi.mul(&x)), qi.div(&x)];
        for op in 0..4u8 {
            let mut fr = RBig::forms_ri(op, &pa, &ii, false);
            let mut fl = RBig::forms_ri(op, &pa, &ii, true);
            // (ref,ref) of IBig and, when present, of UBig
            fr.retain(|f| f.2 == "(ref,ref)");
            fl.retain(|f| f.2 == "(val,val)");
            check_mix::<RBig>(rec, OPS[op as usize], class, fr, &right[op as usize], &|| format!("{} {} int {}", x.show(), SYM[op as usize], num(&i)));
            check_mix::<RBig>(rec, OPS[op as usize], class, fl, &left[op as usize], &|| format!("int {} {} {}", num(&i), SYM[op as usize], x.show()));
            let mut fr = Relaxed::forms_ri(op, &la, &ii, false);
            let mut fl = Relaxed::forms_ri(op, &la, &ii, true);
            fr.retain(|f| f.2 == "(ref,ref)");
            fl.retain(|f| f.2 == "(val,val)");
            check_mix::<Relaxed>(rec, OPS[op as usize], class, fr, &right[op as usize], &|| format!("{} {} int {}{}", x.show(), SYM[op as usize], num(&i), sp));
            check_mix::<Relaxed>(rec, OPS[op as usize], class, fl, &left[op as usize], &|| format!("int {} {} {}{}", num(&i), SYM[op as usize], x.show(), sp));
        }
    }
    // unary on x
    check_forms::<RBig>(rec, "inv", class, RBig::forms_un(1, &pa), &x.inv(), &|| format!("inv({})", x.show()));
    check_forms::<RBig>(rec, "sqr", class, RBig::forms_un(2, &pa), &Some(x.mul(&x)), &|| format!("sqr({})", x.show()));
    check_forms::<RBig>(rec, "fract", class, RBig::forms_un(3, &pa), &Some(x.sub(&Q::int(x.trunc()))), &|| format!("fract({})", x.show()));
    check_forms::<Relaxed>(rec, "inv", class, Relaxed::forms_un(1, &la), &x.inv(), &|| format!("inv({}){}", x.show(), sp));
    check_forms::<Relaxed>(rec, "fract", class, Relaxed::forms_un(3, &la), &Some(x.sub(&Q::int(x.trunc()))), &|| format!("fract({}){}", x.show(), sp));
    judge::<RBig>(rec, &|| "Relaxed::canonicalize".into(), class, &guard(|| la.clone().canonicalize()), &x, &|| format!("Relaxed {} canonicalize", show_parts(&xn, &xd)));
    pair_classes(rec, &x, &y, &wants);
    let gw = word_len(x.d.gcd(&y.d).magnitude());
    rec.hit(match gw { 0 | 1 => "gcd(denominators):1-word", 2 => "gcd(denominators):2-words", _ => "gcd(denominators):3+words(Lehmer)" });
    if wmax >= 3 {
        rec.hit("operand-component>=3words(heap)");
    }
    if xn.gcd(&xd).bits() > 128 {
        rec.hit("from_parts:reduces-by-3+word-gcd");
    }
    rec.nontrivial();
}

fn rec_wants_mixed(place: usize) -> bool {
    place == 1 || place == 2
}

// ---------------------------------------------------------------------------------------------
// histories (DESIGN §3.2): model-side BFS over value states, every state re-materialised on real
// objects by replaying its shortest path, every transition executed in all call forms

#[derive(Clone, Copy, PartialEq, Eq, Hash, Debug)]
struct St {
    r: [R; 2],
    k: i128,
}

enum MOut {
    Next(St),
    DivZero,
    Pruned,
}

fn transitions() -> Vec<Tr> {
    let mut t = vec![];
    for op in 0..5u8 {
        for (d, s) in [(0u8, 1u8), (1, 0), (0, 0), (1, 1)] {
            t.push(Tr::RR(op, d, s));
        }
    }
    for op in 0..4u8 {
        for s in 0..2u8 {
            t.push(Tr::RI(op, s, false));
            t.push(Tr::RI(op, s, true));
        }
    }
    for op in 0..4u8 {
        for s in 0..2u8 {
            t.push(Tr::Un(op, s));
        }
    }
    for s in 0..2u8 {
        t.push(Tr::K(0, s));
        t.push(Tr::K(1, s));
    }
    t.push(Tr::K(2, 0));
    t
}

fn fits(v: i128, cap: u32) -> bool {
    128 - v.unsigned_abs().leading_zeros() <= cap
}

/// Ok(Some(v)) value, Ok(None) division by zero, Err(()) a component exceeds the cap
fn m_bin(op: u8, a: R, b: R, cap: u32) -> Result<Option<R>, ()> {
    if op >= 3 && b.0 == 0 {
        return Ok(None);
    }
    let fast = match op {
        0 => r_add(a, b),
        1 => r_sub(a, b),
        2 => r_mul(a, b),
        3 => r_div(a, b),
        _ => r_rem(a, b),
    };
    let v = match fast {
        Some(v) => v,
        None => {
            let (qa, qb) = (Q::from_r(a), Q::from_r(b));
            let q = match op {
                0 => qa.add(&qb),
                1 => qa.sub(&qb),
                2 => qa.mul(&qb),
                3 => qa.div(&qb).unwrap(),
                _ => qa.rem(&qb).unwrap(),
            };
            match q.to_r(cap as u64) {
                Some(v) => v,
                None => return Err(()),
            }
        }
    };
    if fits(v.0, cap) && fits(v.1, cap) {
        Ok(Some(v))
    } else {
        Err(())
    }
}

fn model(st: &St, tr: Tr, cap: u32) -> MOut {
    let mut n = *st;
    let put = |n: &mut St, slot: usize, v: Result<Option<R>, ()>| match v {
        Ok(Some(v)) => {
            n.r[slot] = v;
            MOut::Next(*n)
        }
        Ok(None) => MOut::DivZero,
        Err(()) => MOut::Pruned,
    };
    match tr {
        Tr::RR(op, d, s) => {
            let v = m_bin(op, st.r[d as usize], st.r[s as usize], cap);
            put(&mut n, d as usize, v)
        }
        Tr::RI(op, s, left) => {
            let kq = (st.k, 1);
            let v = if left { m_bin(op, kq, st.r[s as usize], cap) } else { m_bin(op, st.r[s as usize], kq, cap) };
            put(&mut n, s as usize, v)
        }
        Tr::Un(op, s) => {
            let x = st.r[s as usize];
            let v = match op {
                0 => Ok(Some((-x.0, x.1))),
                1 => {
                    if x.0 == 0 {
                        Ok(None)
                    } else {
                        Ok(r_norm(x.1, x.0))
                    }
                }
                2 => m_bin(2, x, x, cap),
                _ => Ok(r_norm(x.0 % x.1, x.1)),
            };
            put(&mut n, s as usize, v)
        }
        Tr::K(kind, s) => {
            let x = st.r[s as usize];
            let v: Option<i128> = match kind {
                0 => Some(x.0 / x.1),
                1 => match r_round_half_away(x) {
                    Some(v) => Some(v),
                    None => Q::from_r(x).round_half_away().to_i128(),
                },
                _ => {
                    if st.r[1].0 == 0 {
                        return MOut::DivZero;
                    }
                    match r_div_euclid(st.r[0], st.r[1]) {
                        Some(v) => Some(v),
                        None => Q::from_r(st.r[0]).div_euclid(&Q::from_r(st.r[1])).unwrap().to_i128(),
                    }
                }
            };
            match v {
                Some(v) if fits(v, cap) => {
                    n.k = v;
                    MOut::Next(n)
                }
                _ => MOut::Pruned,
            }
        }
    }
}

/// compact stored form of a state (all components fit 62 bits by the cap)
type Sk = [i64; 5];
fn pack(s: &St) -> Sk {
    [s.r[0].0 as i64, s.r[0].1 as i64, s.r[1].0 as i64, s.r[1].1 as i64, s.k as i64]
}
fn unpack(k: &Sk) -> St {
    St { r: [(k[0] as i128, k[1] as i128), (k[2] as i128, k[3] as i128)], k: k[4] as i128 }
}

struct Hist {
    states: Vec<Sk>,
    parent: Vec<(u32, u16)>,
    depth: Vec<u8>,
    /// states[..expand] have depth < max depth and are expanded by the sweep
    expand: usize,
    pruned: u64,
    div_zero: u64,
    edges: u64,
    per_depth: Vec<u64>,
    total: u64,
}

fn explore(starts: &[St], trs: &[Tr], max_depth: u8, cap: u32) -> Hist {
    assert!(cap <= 62);
    let mut h = Hist { states: vec![], parent: vec![], depth: vec![], expand: 0, pruned: 0, div_zero: 0, edges: 0, per_depth: vec![0; max_depth as usize + 1], total: 0 };
    let mut seen: std::collections::HashSet<Sk> = std::collections::HashSet::new();
    for s in starts {
        if seen.insert(pack(s)) {
            h.states.push(pack(s));
            h.parent.push((u32::MAX, 0));
            h.depth.push(0);
            h.per_depth[0] += 1;
            h.total += 1;
        }
    }
    let mut i = 0usize;
    while i < h.states.len() {
        let d = h.depth[i];
        if d >= max_depth {
            break;
        }
        let st = unpack(&h.states[i]);
        for (ti, &tr) in trs.iter().enumerate() {
            h.edges += 1;
            match model(&st, tr, cap) {
                MOut::Next(n) => {
                    if seen.insert(pack(&n)) {
                        h.per_depth[d as usize + 1] += 1;
                        h.total += 1;
                        // states of the last depth are checked as results but never expanded: only
                        // their membership is kept
                        if d + 1 < max_depth {
                            h.states.push(pack(&n));
                            h.parent.push((i as u32, ti as u16));
                            h.depth.push(d + 1);
                        }
                    }
                }
                MOut::DivZero => h.div_zero += 1,
                MOut::Pruned => h.pruned += 1,
            }
        }
        i += 1;
    }
    h.expand = i;
    h
}

fn describe(tr: Tr) -> String {
    match tr {
        Tr::RR(op, d, s) => format!("r{} {}= r{}", d, SYM[op as usize], s),
        Tr::RI(op, s, false) => format!("r{} = r{} {} k", s, s, SYM[op as usize]),
        Tr::RI(op, s, true) => format!("r{} = k {} r{}", s, SYM[op as usize], s),
        Tr::Un(op, s) => format!("r{} = {}(r{})", s, UN[op as usize], s),
        Tr::K(2, _) => "k = r0.div_euclid(r1)".to_string(),
        Tr::K(kind, s) => format!("k = {}(r{})", KN[kind as usize], s),
    }
}

fn show_st(st: &St) -> String {
    format!("(r0={}, r1={}, k={})", Q::from_r(st.r[0]).show(), Q::from_r(st.r[1]).show(), st.k)
}

/// expected result of one transition, computed on BigInt fractions (independent of the i128 model)
enum Want {
    Rat(Option<Q>),
    Int(Option<BigInt>),
}

fn want_of(q: &[Q; 2], k: &BigInt, tr: Tr) -> Want {
    let bin = |op: u8, a: &Q, b: &Q| match op {
        0 => Some(a.add(b)),
        1 => Some(a.sub(b)),
        2 => Some(a.mul(b)),
        3 => a.div(b),
        _ => a.rem(b),
    };
    match tr {
        Tr::RR(op, d, s) => Want::Rat(bin(op, &q[d as usize], &q[s as usize])),
        Tr::RI(op, s, left) => {
            let kq = Q::int(k.clone());
            Want::Rat(if left { bin(op, &kq, &q[s as usize]) } else { bin(op, &q[s as usize], &kq) })
        }
        Tr::Un(op, s) => {
            let x = &q[s as usize];
            Want::Rat(match op {
                0 => Some(x.neg()),
                1 => x.inv(),
                2 => Some(x.mul(x)),
                _ => Some(x.sub(&Q::int(x.trunc()))),
            })
        }
        Tr::K(kind, s) => Want::Int(match kind {
            0 => Some(q[s as usize].trunc()),
            1 => Some(q[s as usize].round_half_away()),
            _ => q[0].div_euclid(&q[1]),
        }),
    }
}

fn materialise<T: Rat>(start: &St, spell: i128, path: &[u16], trs: &[Tr]) -> Result<([T; 2], IBig), String> {
    guard(|| {
        let mk = |r: R| T::mk(&BigInt::from(r.0 * spell), &BigInt::from(r.1 * spell));
        let mut pool = [mk(start.r[0]), mk(start.r[1])];
        let mut k = IBig::from(start.k);
        for &t in path {
            T::apply(&mut pool, &mut k, trs[t as usize]);
        }
        (pool, k)
    })
}

fn history_lane<T: Rat>(rec: &mut Rec, h: &Hist, trs: &[Tr], i: usize, spell: i128, path: &[u16], start: &St, pathtxt: &str) {
    let st = unpack(&h.states[i]);
    let (pool, k) = match materialise::<T>(start, spell, path, trs) {
        Ok(x) => x,
        Err(p) => {
            rec.fail(format!("{}|{}::history-replay|panic|history", P, T::NAME), pathtxt.to_string(), p, show_st(&st));
            return;
        }
    };
    let q = [Q::from_r(st.r[0]), Q::from_r(st.r[1])];
    let kb = BigInt::from(st.k);
    // the replayed state must be the state the model says (invariants in every state)
    for s in 0..2 {
        if !judge::<T>(rec, &|| format!("{}::history-state", T::NAME), "history", &Ok(pool[s].clone()), &q[s], &|| format!("slot r{} after {}", s, pathtxt)) {
            return;
        }
        if !T::STRICT && pool[s].parts() != (q[s].n.clone(), q[s].d.clone()) {
            rec.hit("relaxed:state-holds-unreduced-value");
        }
    }
    if !judge_int(rec, &|| format!("{}::history-state.k", T::NAME), "history", &Ok(k.clone()), &kb, &|| format!("integer slot after {}", pathtxt)) {
        return;
    }
    for &tr in trs {
        let case = || format!("{} then {}", pathtxt, describe(tr));
        let want = want_of(&q, &kb, tr);
        // model cross-check (i128 fast path against BigInt fractions)
        if T::STRICT {
            match (model(&st, tr, HCAP), &want) {
                (MOut::Next(n), Want::Rat(Some(w))) => {
                    let slot = match tr { Tr::RR(_, d, _) => d, Tr::RI(_, s, _) | Tr::Un(_, s) => s, Tr::K(..) => 9 } as usize;
                    if slot > 1 || Q::from_r(n.r[slot]) != *w {
                        rec.hit("MACHINERY:model-mismatch");
                    }
                    if w.is_zero() {
                        rec.hit("result-zero");
                    }
                }
                (MOut::Next(n), Want::Int(Some(w))) => {
                    if BigInt::from(n.k) != *w {
                        rec.hit("MACHINERY:model-mismatch");
                    }
                }
                (MOut::DivZero, Want::Rat(None)) | (MOut::DivZero, Want::Int(None)) => rec.hit("division-by-zero-panics"),
                (MOut::Pruned, Want::Rat(Some(_))) | (MOut::Pruned, Want::Int(Some(_))) => rec.hit("pruned(checked, not expanded)"),
                _ => rec.hit("MACHINERY:model-mismatch"),
            }
        }
        match (tr, want) {
            (Tr::RR(op, d, s), Want::Rat(w)) => {
                if d == s {
                    rec.hit("operator-applied-to-a-slot-and-itself");
                }
                check_forms::<T>(rec, OPS[op as usize], "history", T::forms_rr(op, &pool[d as usize], &pool[s as usize]), &w, &case);
            }
            (Tr::RI(op, s, left), Want::Rat(w)) => {
                check_mix::<T>(rec, OPS[op as usize], "history", T::forms_ri(op, &pool[s as usize], &k, left), &w, &case);
            }
            (Tr::Un(op, s), Want::Rat(w)) => {
                check_forms::<T>(rec, UN[op as usize], "history", T::forms_un(op, &pool[s as usize]), &w, &case);
            }
            (Tr::K(kind, s), Want::Int(w)) => {
                check_int_forms::<T>(rec, KN[kind as usize], "history", T::forms_k(kind, s as usize, &pool), &w, &case);
            }
            _ => rec.hit("MACHINERY:model-mismatch"),
        }
    }
}

pub fn run(ctx: &mut Ctx) {
    ctx.rule = "closed universe: every ordered pair of Q(N,D) = all reduced n/d with |n| <= N, 1 <= d <= D, for + - * / % (six call forms each), div_euclid / rem_euclid / div_rem_euclid (four forms), on RBig and on Relaxed in every stored spelling k*n/k*d; Q(N,D) x integer list for the mixed operators with UBig/IBig on either side (four forms); every value of Q(Nu,Du) for neg abs inv sqr cubic pow signum fract trunc floor ceil round split_at_point and the constructors in spellings k = 1..3; shape fractions (a*g)/(b) , a/(b*g) with multi-word cores a,b,c,d and shared factor g in all four placements and all sign pairs; histories: breadth-first exploration of a pool (r0, r1, k) of two rationals and one integer under 49 transitions, every state re-materialised on real RBig and Relaxed objects by replaying its shortest operation path through in-place forms, every transition executed in all call forms. non-trivial = operands not all in {0, +-1}; every counted step is one dashu operation compared with the exact reference fraction".into();
    ctx.assume("num_bigint 0.4 / num_integer gcd are a correct reference (cross-checked in every run against checked i128 fractions, f64, plain Euclid and the definitions of % and Euclidean division on Q(9,9)^2)");
    ctx.assume("Relaxed is judged by value only (denominator != 0 and value == exact result == RBig result); its stored form is recorded in the histogram but not judged");
    ctx.assume("the spelling 2n/2d cannot be stored in a Relaxed (from_parts removes common powers of two; verified for every value in closed.unary), so the stored non-reduced spellings are k = 1, 3 (and 5 in the thorough tier)");
    ctx.assume("history states are value states (numerator, denominator of each slot; integer capacity is not observable by rational operations); each is re-materialised through its shortest operation path only, so other Relaxed spellings of the same value reached by longer paths are not expanded");
    ctx.assume("0^0 is not specified for rationals and is not judged");
    self_check(ctx);

    // ---- closed universe -------------------------------------------------------------------
    let (nq, dq) = ctx.pick((10, 10), (20, 20));
    let qs = q_universe(nq, dq);
    let n = qs.len() as u64;
    let ks: Vec<i64> = ctx.pick(vec![1, 3], vec![1, 3, 5]);
    ctx.bound("closed_Q_N_D", serde_json::json!([nq, dq]));
    ctx.bound("closed_Q_values", n);
    ctx.bound("relaxed_spellings_k", serde_json::json!(ks));
    let (qr, ksr) = (&qs, &ks);
    ctx.sweep("closed.pairs", n * n, |i, rec| {
        let (x, y) = (&qr[(i / n) as usize], &qr[(i % n) as usize]);
        closed_pair(rec, x, y, ksr);
        rec.sample(|| format!("{} (+ - * / % euclid) {}", x.show(), y.show()));
    });
    ctx.require_classes(
        "closed.pairs",
        &["add:gbd=1", "add:gbd>1,zero-result", "add:gbd>1,hint-gcd=1", "add:gbd>1,hint-gcd=gbd", "add:gbd>1,1<hint-gcd<gbd", "sub:zero-result", "zero-numerator-operand", "mul:no-cross-cancel", "mul:cross-cancel-one", "mul:cross-cancel-both", "div:no-cancel", "div:cancel-one", "div:cancel-both", "div,rem:by-zero-panics", "div:negative-divisor", "rem:zero", "rem:tie-rounds-away", "rem:quotient-rounded-toward-zero", "rem:quotient-rounded-away", "euclid:exact", "euclid:negative-dividend", "integer-valued-operand", "relaxed:non-reduced-operand", "relaxed:result-stored-unreduced"],
    );

    // ---- mixed with integers ---------------------------------------------------------------
    let mut ints: Vec<BigInt> = vec![];
    for v in 0..=(nq.max(12)) {
        ints.push(BigInt::from(v));
        if v != 0 {
            ints.push(BigInt::from(-v));
        }
    }
    let one = BigInt::one();
    for big in [&one << 63u32, (&one << 64u32) - 1u32, &one << 64u32, (&one << 64u32) + 1u32, (&one << 64u32) * 3u32, (&one << 128u32) - 1u32, &one << 128u32, (&one << 128u32) * 35u32, BigInt::from(shape(5, "lcgA", 0)) * 6u32] {
        ints.push(-big.clone());
        ints.push(big);
    }
    let ni = ints.len() as u64;
    ctx.bound("mixed_integers", ni);
    let ir = &ints;
    ctx.sweep("closed.mixed", n * ni, |i, rec| {
        let (x, k) = (&qr[(i / ni) as usize], &ir[(i % ni) as usize]);
        mixed_case(rec, x, k, ksr, if k.bits() <= 64 { "closed" } else { "closed,multiword-int" });
        rec.sample(|| format!("{} (+ - * /) int {} on either side", x.show(), num(k)));
    });
    ctx.require_classes("closed.mixed", &["div-by-zero-integer-panics", "integer/zero-rational-panics", "mul-int:gcd(den,int)>1", "div-int:gcd(num,int)>1", "negative-integer", "add/sub-int:zero-result"]);

    // ---- unary + constructors --------------------------------------------------------------
    let (nu, du) = ctx.pick((16, 16), (40, 40));
    let us = q_universe(nu, du);
    let nuv = us.len() as u64;
    let mut exps: Vec<usize> = (0..=ctx.pick(8usize, 12)).collect();
    if !ctx.quick() {
        exps.extend_from_slice(&[16, 31, 32, 33, 64]);
    }
    ctx.bound("unary_Q_N_D", serde_json::json!([nu, du]));
    ctx.bound("unary_Q_values", nuv);
    ctx.bound("pow_exponents", serde_json::json!(exps));
    let (ur, er) = (&us, &exps);
    ctx.sweep("closed.unary", nuv, |i, rec| {
        let x = &ur[i as usize];
        unary_case(rec, x, er, 3);
        rec.sample(|| format!("unary functions, pow, constructors of {}", x.show()));
    });
    ctx.require_classes("closed.unary", &["inv(0)-must-panic", "integer-valued", "relaxed:from_parts-removes-factor-2", "relaxed:result-stored-unreduced"]);

    // ---- shape fractions -------------------------------------------------------------------
    let seed = ctx.seed;
    let bi = move |n: usize, p: &str| BigInt::from(shape(n, p, seed));
    let mut cores: Vec<BigInt> = vec![BigInt::one(), bi(1, "lcgA") | BigInt::one(), bi(2, "top1p1"), bi(3, "lcgB"), bi(4, "sparse")];
    let mut gs: Vec<BigInt> = vec![BigInt::one(), BigInt::from(3), BigInt::one() << 32u32, bi(1, "ones"), bi(2, "ones"), bi(3, "lcgSeed"), bi(8, "alt")];
    if !ctx.quick() {
        cores.extend([bi(2, "lcgSeed"), bi(8, "lcgA")]);
        gs.extend([bi(2, "lcgA"), bi(3, "lcgA"), bi(5, "top1")]);
    }
    let mut numers = vec![BigInt::zero()];
    numers.extend(cores.iter().cloned());
    let (nn, nd, ng) = (numers.len() as u64, cores.len() as u64, gs.len() as u64);
    ctx.bound("shape_cores", nd);
    ctx.bound("shape_shared_factors", ng);
    ctx.bound("shape_max_words", serde_json::json!(cores.iter().chain(gs.iter()).map(|v| word_len(v.magnitude())).max().unwrap()));
    let (numr, corr, gr) = (&numers, &cores, &gs);
    ctx.sweep("shape.pairs", nn * nd * nn * nd * ng * 16, |i, rec| {
        let [ia, ib, ic, id, ig, pl, sg] = unflatten(i, [nn, nd, nn, nd, ng, 4, 4]);
        shape_case(rec, &numr[ia], &corr[ib], &numr[ic], &corr[id], &gr[ig], pl, sg & 1 == 1, sg & 2 == 2);
        rec.sample(|| format!("cores #{},#{},#{},#{} shared factor #{} ({} words) placement {} signs {}", ia, ib, ic, id, ig, word_len(gr[ig].magnitude()), pl, sg));
    });
    ctx.require_classes(
        "shape.pairs",
        &["add:gbd=1", "add:gbd>1,zero-result", "add:gbd>1,hint-gcd=1", "add:gbd>1,hint-gcd=gbd", "add:gbd>1,1<hint-gcd<gbd", "mul:cross-cancel-one", "mul:cross-cancel-both", "div:cancel-one", "div:cancel-both", "zero-numerator-operand", "integer-valued-operand", "gcd(denominators):1-word", "gcd(denominators):2-words", "gcd(denominators):3+words(Lehmer)", "operand-component>=3words(heap)", "from_parts:reduces-by-3+word-gcd", "rem:zero", "div,rem:by-zero-panics"],
    );

    // large operands: 8/40-word cores, 3/40/100-word shared factors (quick: a reduced product that
    // still reaches the unbalanced multi-word multiplication / division paths of the integer layer)
    {
        let lcores: Vec<BigInt> = if ctx.quick() { vec![BigInt::one(), bi(40, "lcgB")] } else { vec![BigInt::one(), bi(8, "lcgB"), bi(40, "lcgB")] };
        let lgs: Vec<BigInt> = if ctx.quick() { vec![bi(3, "lcgA"), bi(100, "sparse")] } else { vec![BigInt::one(), bi(3, "lcgA"), bi(40, "lcgA"), bi(100, "sparse")] };
        let mut lnum = vec![BigInt::zero()];
        lnum.extend(lcores.iter().cloned());
        let (ln, ld, lg) = (lnum.len() as u64, lcores.len() as u64, lgs.len() as u64);
        ctx.bound("shape_large_max_words", 100u64);
        let (lnr, lcr, lgr) = (&lnum, &lcores, &lgs);
        ctx.sweep("shape.large", ln * ld * ln * ld * lg * 16, |i, rec| {
            let [ia, ib, ic, id, ig, pl, sg] = unflatten(i, [ln, ld, ln, ld, lg, 4, 4]);
            shape_case(rec, &lnr[ia], &lcr[ib], &lnr[ic], &lcr[id], &lgr[ig], pl, sg & 1 == 1, sg & 2 == 2);
            rec.sample(|| format!("large cores #{},#{},#{},#{} shared factor #{} ({} words) placement {} signs {}", ia, ib, ic, id, ig, word_len(lgr[ig].magnitude()), pl, sg));
        });
        ctx.require_classes("shape.large", &["add:gbd>1,1<hint-gcd<gbd", "add:gbd>1,hint-gcd=1", "add:gbd>1,zero-result", "mul:cross-cancel-both", "div:cancel-both", "gcd(denominators):3+words(Lehmer)", "from_parts:reduces-by-3+word-gcd"]);
    }

    // very long components (>= 300 words: the double-word Lehmer guess of the integer gcd that every
    // RBig reduction goes through), lengths differing by two words, top words with different
    // numbers of leading zeros
    {
        let nums: Vec<BigInt> = vec![bi(320, "lcgA"), bi(320, "lcgA") >> 3u32, bi(320, "lcgA") >> 9u32, bi(301, "ones") >> 5u32];
        let dens: Vec<BigInt> = vec![bi(318, "lcgB"), bi(318, "sparse"), bi(299, "lcgB") | BigInt::one()];
        let gs: Vec<BigInt> = vec![BigInt::one(), bi(3, "lcgA")];
        let (hn, hd, hg) = (nums.len() as u64, dens.len() as u64, gs.len() as u64);
        let (nr, dr, gr) = (&nums, &dens, &gs);
        let one = BigInt::one();
        let oner = &one;
        ctx.sweep("shape.huge", hn * hd * hg * 2, |i, rec| {
            let [ia, ib, ig, pl] = unflatten(i, [hn, hd, hg, 2]);
            shape_case(rec, &nr[ia], &dr[ib], oner, oner, &gr[ig], pl * 2, false, pl == 1);
            rec.sample(|| format!("{}-word / {}-word fraction, shared factor #{}", word_len(nr[ia].magnitude()), word_len(dr[ib].magnitude()), ig));
        });
    }

    // fractions whose reduction runs through a prescribed sequence of Euclidean steps: coprime cores
    // (a', b') built backwards from quotient lengths, both multiplied by a long shared factor g, so
    // that the gcd inside from_parts divides long remainders with long quotients in later steps
    {
        let qlens: [usize; 4] = [0, 1, 34, 70];
        let mut cores: Vec<(BigInt, BigInt)> = vec![];
        for (i, &q1) in qlens.iter().enumerate() {
            for (j, &q2) in qlens.iter().enumerate() {
                for (k, &q3) in qlens.iter().enumerate() {
                    if !ctx.quick() || (i + j + k) % 2 == 0 {
                        let (mut a, mut b) = (BigInt::one(), BigInt::zero());
                        for (n, &ql) in [q1, q2, q3].iter().enumerate() {
                            let q = if ql == 0 { BigInt::from(1 + n as u32) } else { bi(ql, ["lcgB", "top1p1", "ones"][(i + n) % 3]) };
                            let na = &q * &a + &b;
                            b = a;
                            a = na;
                        }
                        cores.push((a, b));
                    }
                }
            }
        }
        let gs: Vec<BigInt> = ctx.pick(vec![bi(34, "lcgA"), bi(70, "ones")], vec![bi(3, "lcgA"), bi(34, "lcgA"), bi(70, "ones"), bi(130, "lcgA"), bi(200, "sparse")]);
        let (nc, ngq) = (cores.len() as u64, gs.len() as u64);
        let (cr, gr2) = (&cores, &gs);
        let one = BigInt::one();
        let oner = &one;
        ctx.sweep("shape.quotients", nc * ngq * 2, |i, rec| {
            let [ic, ig, sw] = unflatten(i, [nc, ngq, 2]);
            let (a, b) = &cr[ic];
            let (xn, xd) = (a * &gr2[ig], b * &gr2[ig]);
            if xd.is_zero() {
                return;
            }
            if sw == 0 { shape_case(rec, &xn, &xd, oner, oner, oner, 0, false, false) } else { shape_case(rec, &xd, &xn, oner, oner, oner, 0, true, false) }
            rec.hit("from_parts:long-shared-factor,prescribed-quotients");
            rec.sample(|| format!("core #{} ({} / {} words) x shared factor of {} words", ic, word_len(a.magnitude()), word_len(b.magnitude()), word_len(gr2[ig].magnitude())));
        });
        ctx.require_classes("shape.quotients", &["from_parts:long-shared-factor,prescribed-quotients"]);
    }

    // pow / cubic of shape fractions
    let pexps: Vec<usize> = ctx.pick(vec![0, 1, 2, 3, 5], vec![0, 1, 2, 3, 4, 5, 7, 16]);
    let np = pexps.len() as u64;
    let pr = &pexps;
    ctx.sweep("shape.pow", nn * nd * ng * 4 * np, |i, rec| {
        let [ia, ib, ig, v, ie] = unflatten(i, [nn, nd, ng, 4, np]);
        let (mut xn, mut xd) = (numr[ia].clone(), corr[ib].clone());
        if v & 1 == 1 { xn *= &gr[ig]; } else { xd *= &gr[ig]; }
        if v & 2 == 2 { xn = -xn; }
        let x = Q::new(xn.clone(), xd.clone());
        let e = pr[ie];
        if x.is_zero() && e == 0 {
            rec.hit("unspecified:0^0 (not judged)");
            return;
        }
        if (x.n.bits() + x.d.bits()) * e as u64 > 64 * 1200 {
            rec.hit("pruned-result-too-large");
            return;
        }
        let class = format!("shape,{}", size_class(word_len(x.n.magnitude()).max(word_len(x.d.magnitude()))));
        let want = Some(x.pow(e as u32));
        let a = RBig::mk(&x.n, &x.d);
        let l = Relaxed::mk(&xn, &xd);
        check_forms::<RBig>(rec, "pow", &class, vec![("", guard(|| a.pow(e)))], &want, &|| format!("({}).pow({})", x.show(), e));
        check_forms::<Relaxed>(rec, "pow", &class, vec![("", guard(|| l.pow(e)))], &want, &|| format!("(Relaxed {}).pow({})", show_parts(&xn, &xd), e));
        if e == 3 {
            check_forms::<RBig>(rec, "cubic", &class, vec![("", guard(|| a.cubic()))], &want, &|| format!("cubic({})", x.show()));
            check_forms::<Relaxed>(rec, "cubic", &class, vec![("", guard(|| l.cubic()))], &want, &|| format!("cubic(Relaxed {})", show_parts(&xn, &xd)));
        }
        if e >= 2 && !x.trivial() {
            rec.nontrivial();
        }
        rec.sample(|| format!("({}).pow({})", x.show(), e));
    });

    // ---- histories -------------------------------------------------------------------------
    let trs = transitions();
    let starts: Vec<St> = vec![
        St { r: [(0, 1), (1, 1)], k: 1 },
        St { r: [(-1, 1), (1, 2)], k: 2 },
        St { r: [(-2, 3), (3, 2)], k: -3 },
        St { r: [(1, 2), (-2, 3)], k: 0 },
        St { r: [(1, 1), (-1, 1)], k: -1 },
        St { r: [(3, 2), (0, 1)], k: 3 },
    ];
    let (hd, cap) = ctx.pick((4u8, HCAP), (5u8, HCAP));
    let t0 = std::time::Instant::now();
    let hist = explore(&starts, &trs, hd, cap);
    let model_s = t0.elapsed().as_secs_f64();
    ctx.bound("history_depth", hd as u64);
    ctx.bound("history_component_bits_cap", cap as u64);
    ctx.bound("history_transitions_per_state", trs.len() as u64);
    ctx.bound("history_start_states", starts.len() as u64);
    ctx.bound("history_states", hist.total);
    ctx.bound("history_states_per_depth", serde_json::json!(hist.per_depth));
    ctx.bound("history_states_expanded", hist.expand as u64);
    ctx.bound("history_model_seconds", (model_s * 100.0).round() / 100.0);
    let (hr, tr) = (&hist, &trs);
    ctx.sweep("history.bfs", hist.expand as u64, |i, rec| {
        let i = i as usize;
        let mut path: Vec<u16> = vec![];
        let mut j = i;
        while hr.parent[j].0 != u32::MAX {
            path.push(hr.parent[j].1);
            j = hr.parent[j].0 as usize;
        }
        path.reverse();
        let start = unpack(&hr.states[j]);
        let pathtxt = format!("start {} path [{}] reaching {}", show_st(&start), path.iter().map(|&t| describe(tr[t as usize])).collect::<Vec<_>>().join("; "), show_st(&unpack(&hr.states[i])));
        // RBig start values are built from the spelling 2n/2d (6/4 -> 3/2), Relaxed ones from 3n/3d
        history_lane::<RBig>(rec, hr, tr, i, 2, &path, &start, &pathtxt);
        history_lane::<Relaxed>(rec, hr, tr, i, 3, &path, &start, &pathtxt);
        rec.hit(["depth-0", "depth-1", "depth-2", "depth-3", "depth-4", "depth-5", "depth-6"][hr.depth[i] as usize]);
        let st = &unpack(&hr.states[i]);
        if !(Q::from_r(st.r[0]).trivial() && Q::from_r(st.r[1]).trivial() && st.k.abs() <= 1) {
            rec.nontrivial();
        }
        rec.sample(|| pathtxt.clone());
    });
    let mism = ctx.sweeps.last().map(|s| s.classes.get("MACHINERY:model-mismatch").copied().unwrap_or(0)).unwrap_or(0);
    if mism != 0 {
        ctx.machinery(format!("history: the i128 model and the BigInt fractions disagree on {} transitions", mism));
    }
    if matches!(ctx.mode, crate::core::Mode::Run) {
        if let Some(sw) = ctx.sweeps.last_mut() {
            sw.states = hist.total;
            sw.extra.insert("max_depth".into(), serde_json::json!(hd));
            sw.extra.insert("states_total".into(), serde_json::json!(hist.total));
            sw.extra.insert("states_expanded".into(), serde_json::json!(hist.expand));
            sw.extra.insert("model_edges".into(), serde_json::json!(hist.edges));
            sw.extra.insert("model_edges_division_by_zero".into(), serde_json::json!(hist.div_zero));
            sw.extra.insert("pruned".into(), serde_json::json!(hist.pruned));
        }
    }
    let last = ["depth-0", "depth-1", "depth-2", "depth-3", "depth-4", "depth-5"][(hd - 1) as usize];
    ctx.require_classes("history.bfs", &[last, "division-by-zero-panics", "result-zero", "operator-applied-to-a-slot-and-itself", "relaxed:state-holds-unreduced-value", "relaxed:result-stored-unreduced"]);
}
