//! C20 — the literal macros (`ubig! ibig! fbig! dbig! rbig!` and their `static_` variants) build
//! exactly the number that was written; literals outside the grammar are compile errors.
//!
//! Three layers (DESIGN §5 C20):
//!  * pre-pass: the parse modules of `dashu-macros` are compiled (via `#[path]`) into a generated
//!    driver `gen/c20_pre` and run on every enumerated token stream; the emitted token text of the
//!    three code generators (const u32 / `from_le_bytes` / static word arrays) is decoded by a small
//!    reader (`h20::decode`) and compared with the run-time parser and the reference parser;
//!  * `gen/c20_ok`: real macro invocations compiled by rustc against the working tree and run:
//!    macro value == run-time parse == reference parse (value, sign, precision);
//!  * `gen/c20_err`: invocations the pre-pass saw rejected must each carry a compile error.

#[path = "h20.rs"]
mod h20;

use crate::core::{guard, Ctx, Mode, Rec};
use crate::uni::*;
use h20::*;
use num_bigint::{BigInt, BigUint};
use num_traits::{One, Zero};
use std::collections::BTreeMap;
use std::str::FromStr;

const P: &str = "C20";

#[derive(Clone, Copy, PartialEq, Eq, Debug)]
enum Fam {
    U,
    I,
    F,
    D,
    R,
}

#[derive(Clone, Debug)]
struct Case {
    fam: Fam,
    stat: bool,
    /// the macro argument as written in Rust source
    src: String,
    /// the text handed to the run-time parser (token concatenation; without `base N`, without the
    /// `~` marker, and for fbig! without the one documented underscore prefix)
    text: String,
    radix: Option<u32>,
    relaxed: bool,
    /// inside the documented macro grammar: must be accepted
    doc: bool,
    /// form name (class of the literal's spelling)
    form: String,
    /// 0 = pre-pass only, 1 = compiled in both tiers, 2 = compiled in the thorough tier
    compile: u8,
}

impl Case {
    fn mac(&self) -> String {
        let b = match self.fam {
            Fam::U => "ubig",
            Fam::I => "ibig",
            Fam::F => "fbig",
            Fam::D => "dbig",
            Fam::R => "rbig",
        };
        if self.stat {
            format!("static_{}", b)
        } else {
            b.to_string()
        }
    }
    fn show(&self) -> String {
        format!("{}!({})", self.mac(), self.src)
    }
}

// ---------------------------------------------------------------------------------------------
// run-time parser of dashu (the property's own yardstick) and the reference parser

fn fval_of<R: dashu_float::round::Round, const B: dashu_int::Word>(f: &dashu_float::FBig<R, B>) -> Val {
    Val::Float { sig: i_to_ref(f.repr().significand()), exp: f.repr().exponent() as i64, base: B as u32, prec: f.precision() as u64 }
}

fn rt_parse(c: &Case) -> Result<Val, String> {
    use dashu_float::{DBig, FBig};
    use dashu_int::{IBig, UBig};
    use dashu_ratio::{RBig, Relaxed};
    let t = c.text.as_str();
    let e = |e: dashu_base::ParseError| format!("{:?}", e);
    let r = guard(|| match c.fam {
        Fam::U => match c.radix {
            Some(n) => UBig::from_str_radix(t, n).map_err(e),
            None => UBig::from_str_with_radix_prefix(t).map(|v| v.0).map_err(e),
        }
        .map(|v| Val::Int(BigInt::from(u_to_ref(&v)))),
        Fam::I => match c.radix {
            Some(n) => IBig::from_str_radix(t, n).map_err(e),
            None => IBig::from_str_with_radix_prefix(t).map(|v| v.0).map_err(e),
        }
        .map(|v| Val::Int(i_to_ref(&v))),
        Fam::F => {
            if c.radix.is_some() {
                return Err("no `base N` form for floats".to_string());
            }
            <FBig>::from_str(t).map_err(e).map(|v| fval_of(&v))
        }
        Fam::D => {
            if c.radix.is_some() {
                return Err("no `base N` form for floats".to_string());
            }
            DBig::from_str(t).map_err(e).map(|v| fval_of(&v))
        }
        Fam::R => {
            if c.relaxed {
                match c.radix {
                    Some(n) => Relaxed::from_str_radix(t, n).map_err(e),
                    None => Relaxed::from_str_with_radix_prefix(t).map(|v| v.0).map_err(e),
                }
                .map(|v| Val::Ratio { n: i_to_ref(v.numerator()), d: BigInt::from(u_to_ref(v.denominator())) })
            } else {
                match c.radix {
                    Some(n) => RBig::from_str_radix(t, n).map_err(e),
                    None => RBig::from_str_with_radix_prefix(t).map(|v| v.0).map_err(e),
                }
                .map(|v| Val::Ratio { n: i_to_ref(v.numerator()), d: BigInt::from(u_to_ref(v.denominator())) })
            }
        }
    });
    match r {
        Ok(Ok(v)) => {
            if let Val::Ratio { d, .. } = &v {
                if d.is_zero() {
                    return Err("zero denominator".into());
                }
            }
            Ok(v)
        }
        Ok(Err(e)) => Err(e),
        Err(p) => Err(format!("panic: {}", p)),
    }
}

/// reference value (exact) and, for floats, the documented precision
fn ref_parse(c: &Case) -> Option<Val> {
    match c.fam {
        Fam::U => ref_int(&c.text, c.radix, false).map(Val::Int),
        Fam::I => ref_int(&c.text, c.radix, true).map(Val::Int),
        Fam::F | Fam::D => {
            if c.radix.is_some() {
                return None;
            }
            let base = if c.fam == Fam::F { 2 } else { 10 };
            ref_float(&c.text, base).map(|(sig, exp, nd)| Val::Float { sig, exp, base, prec: nd })
        }
        Fam::R => {
            let (n, d) = ref_ratio(&c.text, c.radix)?;
            if d.is_zero() {
                return None;
            }
            if c.relaxed {
                Some(Val::Ratio { n, d })
            } else {
                let r = crate::fref::Rat::new(n, d);
                Some(Val::Ratio { n: r.n, d: r.d })
            }
        }
    }
}

// ---------------------------------------------------------------------------------------------
// universes

fn mags_boundary() -> Vec<BigUint> {
    // the design's list: both sides of the u32 const path, of one and two words, multi-word
    let one = BigUint::one();
    vec![
        BigUint::zero(),
        one.clone(),
        pow2(32) - &one,
        pow2(32),
        pow2(64) - &one,
        pow2(64),
        pow2(128) - &one,
        pow2(128),
        shape(3, "lcgA", 0),
        shape(5, "sparse", 0),
        shape(17, "lcgB", 0),
    ]
}

fn mags(quick: bool, seed: u64) -> Vec<BigUint> {
    let mut v = mags_boundary();
    let one = BigUint::one();
    v.push(BigUint::from(2u8));
    v.push(BigUint::from(10u8));
    v.push(BigUint::from(255u8));
    let ks: Vec<u64> = if quick { (28..=36).chain(60..=68).chain(124..=132).chain([8, 16, 24, 40, 48, 56, 72, 96, 136, 192]).collect() } else { (0..=200).collect() };
    for k in ks {
        v.push(pow2(k));
        v.push(pow2(k) - &one);
        if !quick {
            v.push(pow2(k) + &one);
        }
    }
    if quick {
        for (n, p) in [(1, "lcgA"), (2, "lcgA"), (2, "alt"), (3, "ones"), (3, "top1"), (4, "alt"), (5, "lcgB"), (17, "ones"), (17, "top1p1")] {
            v.push(shape(n, p, seed));
        }
    } else {
        v.extend(i3_mags());
        for n in [1usize, 2, 3, 4, 5, 8, 17, 33] {
            for p in PATTERNS {
                v.push(shape(n, p, seed));
            }
        }
    }
    v.sort();
    v.dedup();
    v
}

fn size_of(m: &BigUint) -> &'static str {
    match m.bits() {
        0 => "zero",
        1..=32 => "<=u32",
        33..=64 => "<=u64",
        65..=128 => "<=u128",
        _ => ">u128",
    }
}

fn group(d: &str, k: usize) -> String {
    let b = d.as_bytes();
    let mut s = String::new();
    for (i, c) in b.iter().enumerate() {
        if i > 0 && (b.len() - i) % k == 0 {
            s.push('_');
        }
        s.push(*c as char);
    }
    s
}

/// spell a digit string of an arbitrary radix as ONE Rust token (literal or identifier), as the
/// macro documentation prescribes (`_100ef base 32`)
fn one_token(d: &str) -> String {
    let b = d.as_bytes();
    let all_dec = b.iter().all(|c| c.is_ascii_digit() || *c == b'_');
    if b[0].is_ascii_digit() && all_dec {
        d.to_string()
    } else if b[0].is_ascii_alphabetic() || b[0] == b'_' {
        d.to_string()
    } else {
        format!("_{}", d)
    }
}

/// may the mixed digit string be written raw, as a Rust literal with a suffix (`1f`, `12abc`)?
fn raw_suffix_ok(d: &str) -> bool {
    let b = d.as_bytes();
    if !b[0].is_ascii_digit() || d.starts_with("0b") || d.starts_with("0o") || d.starts_with("0x") {
        return false;
    }
    match b.iter().find(|c| !(c.is_ascii_digit() || **c == b'_')) {
        Some(c) => *c != b'e' && *c != b'E',
        None => false,
    }
}

const INT_BASES_Q: [u32; 5] = [2, 3, 10, 16, 36];
const INT_BASES_T: [u32; 9] = [2, 3, 7, 8, 10, 16, 32, 35, 36];

/// (form, source tokens, run-time text, radix, compile-in-quick?)
fn int_forms(m: &BigUint, quick: bool) -> Vec<(String, String, String, Option<u32>, bool)> {
    let mut f = vec![];
    let dec = m.to_str_radix(10);
    f.push(("dec".to_string(), dec.clone(), dec.clone(), None, true));
    if dec.len() > 3 {
        f.push(("dec,underscores".into(), group(&dec, 3), group(&dec, 3), None, false));
    }
    f.push(("dec,underscores".into(), format!("{}_", dec), format!("{}_", dec), None, false));
    f.push(("dec,leading-zeros".into(), format!("00{}", dec), format!("00{}", dec), None, false));
    for (pfx, r, name) in [("0b", 2u32, "bin"), ("0o", 8, "oct"), ("0x", 16, "hex")] {
        let d = m.to_str_radix(r);
        f.push((format!("prefix-{}", name), format!("{}{}", pfx, d), format!("{}{}", pfx, d), None, r == 16 || (r == 2 && m.bits() <= 128)));
        let g = group(&d, 4);
        f.push((format!("prefix-{},underscores", name), format!("{}{}", pfx, g), format!("{}{}", pfx, g), None, r == 16 && d.len() > 4));
        f.push((format!("prefix-{},underscores", name), format!("{}_{}", pfx, d), format!("{}_{}", pfx, d), None, false));
        f.push((format!("prefix-{},leading-zeros", name), format!("{}00{}", pfx, d), format!("{}00{}", pfx, d), None, false));
        if r == 16 {
            let u = d.to_uppercase();
            if u != d {
                f.push(("prefix-hex,uppercase".into(), format!("0x{}", u), format!("0x{}", u), None, false));
            }
        }
    }
    let bases: &[u32] = if quick { &INT_BASES_Q } else { &INT_BASES_T };
    for &n in bases {
        let d = m.to_str_radix(n);
        let mut spell = vec![(d.clone(), "")];
        if d.len() > 4 {
            spell.push((group(&d, 4), ",underscores"));
        }
        if n > 10 {
            let u = d.to_uppercase();
            if u != d {
                spell.push((u, ",uppercase"));
            }
        }
        for (s, tag) in spell {
            let tok = one_token(&s);
            let lit = if tok.as_bytes()[0].is_ascii_digit() { "literal" } else { "ident" };
            f.push((format!("base{},{}{}", n, lit, tag), format!("{} base {}", tok, n), tok.clone(), Some(n), tag.is_empty() && (n == 36 || n == 3)));
            if raw_suffix_ok(&s) {
                f.push((format!("base{},suffixed-literal{}", n, tag), format!("{} base {}", s, n), s.clone(), Some(n), tag.is_empty() && n == 36));
            }
        }
    }
    f
}

fn int_cases(ms: &[BigUint], quick: bool, out: &mut Vec<Case>) {
    let boundary = mags_boundary();
    for m in ms {
        let is_b = boundary.contains(m);
        for (form, src, text, radix, cq) in int_forms(m, quick) {
            for (fam, sign) in [(Fam::U, ""), (Fam::I, ""), (Fam::I, "-"), (Fam::I, "+")] {
                for stat in [false, true] {
                    let compile = if is_b && cq && (sign != "+" || form == "dec") && !(fam == Fam::I && sign.is_empty()) {
                        1
                    } else if (is_b && !(fam == Fam::I && sign.is_empty())) || (cq && m.bits() % 8 <= 1 && m.bits() <= 136 && ((fam == Fam::U) || sign == "-")) {
                        2
                    } else {
                        0
                    };
                    out.push(Case { fam, stat, src: format!("{}{}", sign, src), text: format!("{}{}", sign, text), radix, relaxed: false, doc: true, form: format!("{},{}", form, size_of(m)), compile });
                }
            }
        }
    }
}

/// one float spelling: digit strings of the integral and fractional part in `radix` digits
struct FSpell {
    ip: String,
    fp: Option<String>,
    /// (marker, exponent text) e.g. ("e", "-3")
    exp: Option<(&'static str, String)>,
    sign: &'static str,
}

/// source tokens and run-time text of a float spelling; None if it cannot be written as Rust tokens
fn float_src(hex: bool, s: &FSpell, style: u8) -> Option<(String, String, &'static str)> {
    float_src0(hex, s, style).filter(|x| lexable(&x.0))
}

fn float_src0(hex: bool, s: &FSpell, style: u8) -> Option<(String, String, &'static str)> {
    // body without sign
    let mut body = String::new();
    if hex {
        body.push_str("0x");
    }
    body.push_str(&s.ip);
    if let Some(fp) = &s.fp {
        body.push('.');
        body.push_str(fp);
    }
    if let Some((m, e)) = &s.exp {
        body.push_str(m);
        body.push_str(e);
    }
    let text = format!("{}{}", s.sign, body);
    if !hex && s.ip == "0" && s.fp.is_none() {
        // `0b3`, `0b-3` would be (invalid) Rust binary literals
        if let Some((m, e)) = &s.exp {
            if *m == "b" && !(e.bytes().all(|c| c == b'0' || c == b'1')) {
                return None;
            }
        }
    }
    if !hex || s.fp.is_none() {
        if hex && s.ip.is_empty() {
            return None;
        }
        // decimal / binary digits (and hex without a point) are written as they are; how rustc
        // cuts them into tokens (`1.5e3` is one literal, `1.e5` three tokens) does not matter
        // because the macro concatenates the tokens again
        if s.ip.is_empty() && s.fp.as_deref().map_or(true, |f| f.is_empty()) {
            return None;
        }
        if style != 0 {
            return None;
        }
        return Some((text.clone(), text, "plain"));
    }
    // hexadecimal with a point: rustc refuses `0x1.8`; the documented spellings are the
    // underscore-prefixed literal (`_0x1.8p3`) and the underscore after the point (`0x1._8p3`)
    let fp = s.fp.as_ref().unwrap();
    let after_point_risky = |f: &str| {
        // digits directly followed by e/E would start a Rust exponent
        let b = f.as_bytes();
        if b.is_empty() || !b[0].is_ascii_digit() {
            return false;
        }
        match b.iter().find(|c| !(c.is_ascii_digit() || **c == b'_')) {
            Some(c) => *c == b'e' || *c == b'E',
            None => false,
        }
    };
    let tail = |f: &str| -> String {
        let mut t = String::new();
        t.push_str(f);
        if let Some((m, e)) = &s.exp {
            t.push_str(m);
            t.push_str(e);
        }
        t
    };
    match style {
        0 => {
            // `_0xAAA.BBBpE` : the macro strips the underscore (fbig.md)
            if s.ip.is_empty() || after_point_risky(fp) {
                return None;
            }
            Some((format!("{}_0x{}.{}", s.sign, s.ip, tail(fp)), text, "hex,underscore-prefix"))
        }
        1 => {
            // `0xAAA._BBBpE`
            if s.ip.is_empty() || fp.is_empty() {
                return None;
            }
            let t2 = format!("{}0x{}._{}", s.sign, s.ip, tail(fp));
            Some((t2.clone(), t2, "hex,underscore-after-point"))
        }
        2 => {
            // `0xAAA.fBB` when the fraction starts with a letter
            if s.ip.is_empty() || fp.is_empty() || !fp.as_bytes()[0].is_ascii_alphabetic() {
                return None;
            }
            Some((text.clone(), text, "hex,letter-after-point"))
        }
        _ => None,
    }
}

fn float_cases(ms: &[BigUint], heavy: &[BigUint], out: &mut Vec<Case>) {
    let boundary = mags_boundary();
    for (fam, radixes) in [(Fam::F, &[2u32, 16][..]), (Fam::D, &[10u32][..])] {
        for &r in radixes {
            let hex = r == 16;
            let markers: &[&'static str] = match (fam, hex) {
                (Fam::D, _) => &["e", "E", "@"],
                (_, true) => &["p", "P"],
                _ => &["b", "B", "@"],
            };
            for m in ms {
                let is_heavy = heavy.contains(m);
                let is_b = boundary.contains(m);
                if r == 2 && m.bits() > 320 && !is_b {
                    continue;
                }
                let d = m.to_str_radix(r);
                let n = d.len();
                // split points: digits of the fractional part
                let mut splits: Vec<Option<usize>> = vec![None, Some(0), Some(n / 2), Some(n)];
                if is_heavy {
                    splits.push(Some(1.min(n)));
                    splits.push(Some(n.saturating_sub(1)));
                }
                splits.dedup();
                let zeros: &[(&str, &str)] = if is_heavy { &[("", ""), ("", "0"), ("", "000"), ("00", ""), ("0", "00")] } else { &[("", ""), ("", "0")] };
                let exps: Vec<Option<String>> = if is_heavy { vec![None, Some("0".into()), Some("3".into()), Some("-3".into()), Some("+3".into()), Some("-0".into()), Some("100000".into()), Some("-99999".into())] } else { vec![None, Some("-3".into())] };
                let signs: &[&'static str] = if is_heavy { &["", "-", "+"] } else { &["", "-"] };
                let mut seen = std::collections::BTreeSet::new();
                for sp in &splits {
                    for (lz, tz) in zeros {
                        let (ip, fp) = match sp {
                            None => (format!("{}{}{}", lz, d, tz), None),
                            Some(k) => {
                                let k = *k;
                                (format!("{}{}", lz, &d[..n - k]), Some(format!("{}{}", &d[n - k..], tz)))
                            }
                        };
                        for e in &exps {
                            for (mi, mk) in markers.iter().enumerate() {
                                if e.is_none() && mi > 0 {
                                    continue;
                                }
                                if !is_heavy && mi > 0 {
                                    continue;
                                }
                                for sg in signs {
                                    let spell = FSpell { ip: ip.clone(), fp: fp.clone(), exp: e.clone().map(|x| (*mk, x)), sign: sg };
                                    for style in 0..3u8 {
                                        if let Some((src, text, fname)) = float_src(hex, &spell, style) {
                                            if !seen.insert(src.clone()) {
                                                continue;
                                            }
                                            // grouped-underscore variant of long digit strings is produced below
                                            let zero_cls = if m.is_zero() { "zero" } else { size_of(m) };
                                            let form = format!("{}{},{}{}", if hex { "" } else if r == 2 { "bin," } else { "dec," }, fname, zero_cls, if tz.is_empty() { "" } else { ",trailing-zeros" });
                                            for stat in [false, true] {
                                                let plain = lz.is_empty() && mi == 0;
                                                let pick = (sp.is_none() && e.is_none() && sg.is_empty()) || (*sp == Some(n / 2) && e.as_deref() == Some("-3") && *sg != "+") || (*sp == Some(n) && e.is_none() && *sg == "-");
                                                let compile = if is_b && plain && pick && (r != 2 || m.bits() <= 128) {
                                                    1
                                                } else if (is_b && plain && tz.is_empty()) || (is_heavy && m.bits() != 1 && m.bits() != 4 && plain && tz.len() <= 1 && matches!(e.as_deref(), None | Some("-3")) && *sg != "+") {
                                                    2
                                                } else {
                                                    0
                                                };
                                                out.push(Case { fam, stat, src: src.clone(), text: text.clone(), radix: None, relaxed: false, doc: true, form: form.clone(), compile });
                                            }
                                        }
                                    }
                                }
                            }
                        }
                    }
                }
                // underscores inside the digits
                if n > 4 {
                    let g = group(&d, 4);
                    let spell = FSpell { ip: g.clone(), fp: None, exp: None, sign: "" };
                    if let Some((src, text, _)) = float_src(hex, &spell, 0) {
                        for stat in [false, true] {
                            out.push(Case { fam, stat, src: src.clone(), text: text.clone(), radix: None, relaxed: false, doc: true, form: format!("{},underscores,{}", if hex { "hex" } else if r == 2 { "bin" } else { "dec" }, size_of(m)), compile: if is_b { 1 } else { 0 } });
                        }
                    }
                    if fam == Fam::D {
                        // `1._5`-style: underscore directly after the point
                        let src = format!("{}._{}", &d[..n / 2], &d[n / 2..]);
                        for stat in [false, true] {
                            out.push(Case { fam, stat, src: src.clone(), text: src.clone(), radix: None, relaxed: false, doc: false, form: format!("dec,underscore-after-point,{}", size_of(m)), compile: 0 });
                        }
                    }
                }
            }
        }
    }
}

fn ratio_cases(ms: &[BigUint], heavy: &[BigUint], quick: bool, out: &mut Vec<Case>) {
    let boundary = mags_boundary();
    let three = BigUint::from(3u8);
    let six = BigUint::from(6u8);
    // (numerator, denominator, boundary magnitude involved, compiled in the quick tier)
    let mut pairs: Vec<(BigUint, BigUint, bool, bool)> = vec![];
    for m in ms {
        let b = boundary.contains(m);
        pairs.push((m.clone(), BigUint::one(), b, false));
        pairs.push((m.clone(), three.clone(), b, b));
        if !m.is_zero() {
            pairs.push((three.clone(), m.clone(), b, b));
            pairs.push((m * &six, m * &BigUint::from(4u8), b, b)); // common factor m and 2
            pairs.push((m.clone(), m + BigUint::one(), b, false));
        }
    }
    for a in heavy {
        for b in heavy {
            if !b.is_zero() {
                pairs.push((a.clone(), b.clone(), true, false));
            }
        }
    }
    pairs.sort();
    pairs.dedup();
    let bases: &[u32] = if quick { &[3, 16, 36] } else { &[2, 3, 10, 16, 32, 36] };
    pairs.dedup_by(|x, y| x.0 == y.0 && x.1 == y.1);
    for (n, d, b, q1) in &pairs {
        let is_heavy = heavy.contains(n) && heavy.contains(d);
        let mut spell: Vec<(String, String, String, Option<u32>, bool)> = vec![]; // form, src, text, radix, compile-quick
        let (nd, dd) = (n.to_str_radix(10), d.to_str_radix(10));
        spell.push(("dec".into(), format!("{}/{}", nd, dd), format!("{}/{}", nd, dd), None, true));
        if d.is_one() {
            spell.push(("dec,no-denominator".into(), nd.clone(), nd.clone(), None, true));
        }
        let (nh, dh) = (n.to_str_radix(16), d.to_str_radix(16));
        spell.push(("prefix-hex,both".into(), format!("0x{}/0x{}", nh, dh), format!("0x{}/0x{}", nh, dh), None, n.bits() > 32 || d.bits() > 32));
        spell.push(("prefix-hex,numerator-only".into(), format!("0x{}/{}", nh, one_token(&dh)), format!("0x{}/{}", nh, one_token(&dh)), None, is_heavy));
        if is_heavy || *b {
            let (nb, db) = (n.to_str_radix(2), d.to_str_radix(2));
            if nb.len() <= 200 && db.len() <= 200 {
                spell.push(("prefix-bin,both".into(), format!("0b{}/0b{}", nb, db), format!("0b{}/0b{}", nb, db), None, false));
            }
            let (no, dob) = (n.to_str_radix(8), d.to_str_radix(8));
            spell.push(("prefix-oct,numerator-only".into(), format!("0o{}/{}", no, dob), format!("0o{}/{}", no, dob), None, false));
            if nd.len() > 3 {
                spell.push(("dec,underscores".into(), format!("{}/{}", group(&nd, 3), group(&dd, 3)), format!("{}/{}", group(&nd, 3), group(&dd, 3)), None, false));
            }
        }
        for &r in bases {
            if !(is_heavy || *b || r == 36) {
                continue;
            }
            let (a, c) = (one_token(&n.to_str_radix(r)), one_token(&d.to_str_radix(r)));
            spell.push((format!("base{}", r), format!("{}/{} base {}", a, c, r), format!("{}/{}", a, c), Some(r), r == 36 && d == &three));
        }
        let signs: Vec<(&str, &str)> = if is_heavy { vec![("", ""), ("-", ""), ("+", ""), ("", "-"), ("-", "-"), ("", "+"), ("-", "+")] } else { vec![("", ""), ("-", "")] };
        for (form, src, text, radix, cq) in spell {
            for (sn, sd) in &signs {
                let put = |s: &str| -> Option<String> {
                    match s.find('/') {
                        Some(p) => Some(format!("{}{}/{}{}", sn, &s[..p], sd, &s[p + 1..])),
                        None => {
                            if sd.is_empty() {
                                Some(format!("{}{}", sn, s))
                            } else {
                                None
                            }
                        }
                    }
                };
                let (src2, text2) = match (put(&src), put(&text)) {
                    (Some(a), Some(b)) => (a, b),
                    _ => continue,
                };
                for relaxed in [false, true] {
                    for stat in [false, true] {
                        let cls = if n.bits() <= 32 && d.bits() <= 32 { "both<=u32" } else if n.bits() <= 32 { "den>u32" } else if d.bits() <= 32 { "num>u32" } else { "both>u32" };
                        let compile = if *q1 && cq && sd.is_empty() && (sn.is_empty() || (*sn == "-" && form == "dec")) { 1 } else if (*b && sd.is_empty() && (cq || form.starts_with("prefix-hex"))) || (is_heavy && (form == "dec" || form == "prefix-hex,both" || form == "base36") && matches!((*sn, *sd), ("", "") | ("-", "") | ("", "-"))) { 2 } else { 0 };
                        out.push(Case { fam: Fam::R, stat, src: format!("{}{}", if relaxed { "~" } else { "" }, src2), text: text2.clone(), radix, relaxed, doc: true, form: format!("{},{}{}", form, cls, if relaxed { ",relaxed" } else { "" }), compile });
                    }
                }
            }
        }
    }
}

// ---------------------------------------------------------------------------------------------
// token-sequence universe: every sequence of <= L tokens over a small alphabet per macro family;
// the canonical reading of a sequence is: optional leading `~` (rbig), optional trailing
// `base <decimal literal>`, the rest concatenated = the literal text

fn alphabet(fam: Fam) -> &'static [&'static str] {
    match fam {
        Fam::U | Fam::I => &["-", "+", "1", "0x1f", "z", "_1", "base", "16", "36", "1.5", "/", "~", "(1)", "\"1\"", "1e3", "_"],
        Fam::F => &["-", "+", "1", "0x1", "_0x1", ".", "1.1", "f", "_1", "p3", "b3", "@", "3", "1e3", "base", "~"],
        Fam::D => &["-", "+", "1", "15", ".", "1.5", "e3", "_5", "1e3", "@", "3", "E", "0x1", "base", "/", "(1)"],
        Fam::R => &["-", "+", "~", "/", "1", "2", "0x1f", "dd", "base", "16", "0", "_1", "1.5", "(1)", "4", "6"],
    }
}

fn is_dec_literal(t: &str) -> bool {
    !t.is_empty() && t.bytes().all(|c| c.is_ascii_digit())
}

fn token_case(fam: Fam, seq: &[&str]) -> Case {
    let src = seq.join(" ");
    let mut body: &[&str] = seq;
    let mut relaxed = false;
    if fam == Fam::R && body.first() == Some(&"~") {
        relaxed = true;
        body = &body[1..];
    }
    let mut radix = None;
    if matches!(fam, Fam::U | Fam::I | Fam::R) && body.len() >= 3 && body[body.len() - 2] == "base" && is_dec_literal(body[body.len() - 1]) {
        radix = body[body.len() - 1].parse::<u32>().ok();
        if radix.is_some() {
            body = &body[..body.len() - 2];
        }
    }
    let mut text: String = body.concat();
    if fam == Fam::F {
        // fbig.md: one underscore prefix (after the sign) is dropped
        let (s, rest) = match text.strip_prefix('-') {
            Some(r) => ("-", r),
            None => match text.strip_prefix('+') {
                Some(r) => ("+", r),
                None => ("", text.as_str()),
            },
        };
        if let Some(r) = rest.strip_prefix('_') {
            text = format!("{}{}", s, r);
        }
    }
    Case { fam, stat: false, src, text, radix, relaxed, doc: false, form: "token-sequence".into(), compile: 0 }
}

fn token_cases(fam: Fam, maxlen: usize, out: &mut Vec<Case>) {
    let a = alphabet(fam);
    out.push(token_case(fam, &[]));
    for len in 1..=maxlen {
        let total = a.len().pow(len as u32);
        for idx in 0..total {
            let mut k = idx;
            let mut seq = vec![""; len];
            for j in (0..len).rev() {
                seq[j] = a[k % a.len()];
                k /= a.len();
            }
            out.push(token_case(fam, &seq));
        }
    }
}

/// hand-written literals outside (or at the edge of) the grammar — the design's list
fn invalid_cases(out: &mut Vec<Case>) {
    let ints: &[&str] = &[
        "12 base 2", "9 base 8", "g base 16", "_1g base 16", "zz base 35", "1 base 1", "1 base 37", "1 base 0", "1 base", "1 base x", "1 base -2", "1 base 10 10", "1 base 4294967296", "1 base 10u8", "1 base 0x10", "1 base 1_0", "1 base 10.0",
        "", "--5", "- -5", "+-5", "-+5", "++5", "-5", "+5", "1.5", "1e3", "1.", "12u8", "\"12\"", "'1'", "(12)", "[1]", "{1}", "1 2", "5-", "5 +", "_", "__ base 10", "1/2", "~1", "1 base 16 base 16", "1 base base 16", "1,2", "1;", "base 10", "true", "-", "+",
        "0xg", "0b_", "1_000 000", "- 0x", "0x1f base 36", "1e3 base 16", "0o17 base 8", "12abc", "ab", "0xffu8", "-0", "- 0", "+0",
    ];
    for s in ints {
        if !lexable(s) {
            continue; // rustc itself refuses the token; it never reaches the macro
        }
        for fam in [Fam::U, Fam::I] {
            for stat in [false, true] {
                let seq: Vec<&str> = split_src(s);
                let mut c = token_case(fam, &seq);
                c.src = s.to_string();
                c.stat = stat;
                c.form = "hand-written".into();
                c.compile = 1;
                out.push(c);
            }
        }
    }
    let floats: &[&str] = &[
        "", "--1.5", "+-1", "-+1", "++1", "1.5.2", "1.5 base 10", "1 base 2", "0x1p3", "0x1._8p3", "1.5e3", "12", "1p3", ".", "1e5e5", "1@", "@1", "1.5f32", "\"1.5\"", "(1.5)", "1 . 5", "1,5", "1e1_0", "0x1p1_0", "inf", "nan", "1/2", "~1.5", "__1", "_1", "-_1", "_-1", "1 1", "1e", "1.1b", "1b3", "1B-3", "1.1@3", "0b101", "0x", "1e3", "1E+3", "1e-3", "1.e5", ".5", "5.", "-.5", "1_0.0_1", "1._5", "0x1f", "0X1F", "0x1.8@3", "1e99999999999999999999", "1e9223372036854775807", "1b9223372036854775807", "0x1p9223372036854775807", "1.5e-9223372036854775808",
    ];
    for s in floats {
        if !lexable(s) || *s == "0x1.8@3" {
            continue; // refused by rustc's lexer (`0x1.8` = "hexadecimal float literal is not supported")
        }
        for fam in [Fam::F, Fam::D] {
            for stat in [false, true] {
                let seq: Vec<&str> = split_src(s);
                let mut c = token_case(fam, &seq);
                c.src = s.to_string();
                c.stat = stat;
                c.form = "hand-written".into();
                c.compile = 1;
                out.push(c);
            }
        }
    }
    let ratios: &[&str] = &[
        "", "1/0", "1/-0", "0/0", "~1/0", "1 / / 2", "1/2/3", "/2", "1/", "~", "1~/2", "1/~2", "1 2", "22 7", "0x10/0b11", "10/0x10", "0x10/10", "1.5/2", "1/2.5", "1/2 base 1", "1/2 base 37", "g/1 base 16", "1/g base 16", "1 base 10/2", "--1/2", "1/--2", "1/+-2", "\"1\"/2", "(1/2)", "1/2 base", "- ~1/2", "-~1/2", "~ ~1/2", "~~1/2", "1 - 2", "1/2 base 10 base 10", "+1/+2", "-1/-2", "~-0/5", "0/5", "~0/4", "~6/4", "6/4", "1/2 3", "1 2/3", "-", "/", "1 / 2", "1/2u8", "_/1", "1/_",
    ];
    for s in ratios {
        for stat in [false, true] {
            let seq: Vec<&str> = split_src(s);
            let mut c = token_case(Fam::R, &seq);
            c.src = s.to_string();
            c.stat = stat;
            c.form = "hand-written".into();
            c.compile = 1;
            out.push(c);
        }
    }
}

/// would rustc lex this macro argument?  (number tokens only: radix prefixes need valid digits,
/// a decimal exponent needs a digit)
fn lexable(src: &str) -> bool {
    for t in split_src(src) {
        let b = t.as_bytes();
        if !b[0].is_ascii_digit() {
            continue;
        }
        for (pfx, radix) in [("0b", 2u32), ("0o", 8), ("0x", 16)] {
            if let Some(rest) = t.strip_prefix(pfx) {
                let run: Vec<u8> = rest.bytes().take_while(|c| if radix == 16 { c.is_ascii_hexdigit() || *c == b'_' } else { c.is_ascii_digit() || *c == b'_' }).collect();
                if !run.iter().any(|c| *c != b'_') {
                    return false;
                }
                if radix != 16 && run.iter().any(|c| c.is_ascii_digit() && (*c - b'0') as u32 >= radix) {
                    return false;
                }
            }
        }
        if !(t.starts_with("0b") || t.starts_with("0o") || t.starts_with("0x")) {
            // decimal: digits [. digits] [e|E [+-] digits]
            let mut i = 0;
            while i < b.len() && (b[i].is_ascii_digit() || b[i] == b'_' || b[i] == b'.') {
                i += 1;
            }
            if i < b.len() && (b[i] == b'e' || b[i] == b'E') {
                let mut j = i + 1;
                if j < b.len() && (b[j] == b'+' || b[j] == b'-') {
                    j += 1;
                }
                while j < b.len() && b[j] == b'_' {
                    j += 1;
                }
                if !(j < b.len() && b[j].is_ascii_digit()) {
                    return false;
                }
            }
        }
    }
    true
}

/// split hand-written source into Rust tokens (only the token kinds used in the lists above)
fn split_src(s: &str) -> Vec<&str> {
    let b = s.as_bytes();
    let mut out = vec![];
    let mut i = 0;
    while i < b.len() {
        let c = b[i];
        if c == b' ' {
            i += 1;
        } else if c == b'"' || c == b'\'' {
            let j = (i + 1..b.len()).find(|&j| b[j] == c).unwrap();
            out.push(&s[i..=j]);
            i = j + 1;
        } else if c == b'(' || c == b'[' || c == b'{' {
            let close = match c {
                b'(' => b')',
                b'[' => b']',
                _ => b'}',
            };
            let j = (i + 1..b.len()).find(|&j| b[j] == close).unwrap();
            out.push(&s[i..=j]);
            i = j + 1;
        } else if c.is_ascii_digit() {
            // number literal: digits/letters/underscores, one `.` followed by a digit or by a
            // non-identifier character, exponent sign after e/E of a decimal literal
            let hexlike = s[i..].starts_with("0x") || s[i..].starts_with("0b") || s[i..].starts_with("0o");
            let mut j = i;
            let mut seen_dot = false;
            while j < b.len() {
                let d = b[j];
                if d.is_ascii_alphanumeric() || d == b'_' {
                    j += 1;
                } else if d == b'.' && !seen_dot && !hexlike && b[i..j].iter().all(|x| x.is_ascii_digit() || *x == b'_') {
                    let nx = b.get(j + 1).copied();
                    let id_start = nx.map_or(false, |x| x.is_ascii_alphabetic() || x == b'_');
                    if nx == Some(b'.') || id_start {
                        break;
                    }
                    seen_dot = true;
                    j += 1;
                } else if (d == b'+' || d == b'-') && !hexlike && j > i && (b[j - 1] == b'e' || b[j - 1] == b'E') && b[i..j - 1].iter().all(|x| x.is_ascii_digit() || *x == b'_' || *x == b'.') && b.get(j + 1).map_or(false, |x| x.is_ascii_digit()) {
                    j += 1;
                } else {
                    break;
                }
            }
            out.push(&s[i..j]);
            i = j;
        } else if c.is_ascii_alphabetic() || c == b'_' {
            let j = (i..b.len()).find(|&j| !(b[j].is_ascii_alphanumeric() || b[j] == b'_')).unwrap_or(b.len());
            out.push(&s[i..j]);
            i = j;
        } else {
            out.push(&s[i..i + 1]);
            i += 1;
        }
    }
    out
}

// ---------------------------------------------------------------------------------------------
// observations and the judge

#[derive(Clone, Debug)]
enum Obs {
    /// the macro produced code; decoded
    Accepted(Dec),
    /// the macro panicked (= compile error) with this message
    Rejected(String),
    /// the macro produced code the reader cannot interpret / that is inconsistent in itself
    Undecodable(String),
    /// the token text could not be lexed (generator problem)
    Lex(String),
    /// not expanded (replay of another case)
    Skipped,
}

fn fam_mac(f: Fam) -> &'static str {
    match f {
        Fam::U => "ubig",
        Fam::I => "ibig",
        Fam::F => "fbig",
        Fam::D => "dbig",
        Fam::R => "rbig",
    }
}

/// which rule of the grammar an accepted-but-ungrammatical token sequence breaks (signature class)
fn anomaly(c: &Case) -> &'static str {
    let t = split_src(&c.src);
    let is_val = |x: &str| x.as_bytes()[0].is_ascii_alphanumeric() || x.as_bytes()[0] == b'_';
    if t.iter().filter(|x| **x == "base").count() > 1 {
        return "repeated-base-keyword";
    }
    if c.fam == Fam::R {
        let body: Vec<&str> = match t.iter().rposition(|x| *x == "base") {
            Some(p) if p > 0 => t[..p].to_vec(),
            _ => t.clone(),
        };
        let vals = body.iter().filter(|x| is_val(x)).count();
        let slash = body.iter().filter(|x| **x == "/").count();
        if vals >= 2 && slash == 0 {
            return "missing-slash";
        }
        if let Some(p) = body.iter().position(|x| *x == "/") {
            if !body[..p].iter().any(|x| is_val(x)) || !body[p + 1..].iter().any(|x| is_val(x)) {
                return "dangling-slash";
            }
        }
        if body.iter().filter(|x| **x == "~").count() > 1 {
            return "repeated-tilde";
        }
        if let Some(p) = body.iter().position(|x| *x == "~") {
            if p != 0 {
                return "tilde-not-first";
            }
        }
        for (i, x) in body.iter().enumerate() {
            if (*x == "-" || *x == "+") && body.get(i + 1).map_or(true, |y| *y == "/") {
                return "sign-not-before-number";
            }
        }
        // signs directly in front of one component
        let mut run = 0;
        for x in &body {
            if *x == "-" || *x == "+" {
                run += 1;
                if run > 1 {
                    return "repeated-sign";
                }
            } else {
                run = 0;
            }
        }
        return "other";
    }
    let first_val = t.iter().position(|x| is_val(x)).unwrap_or(t.len());
    if t[..first_val].iter().filter(|x| **x == "-" || **x == "+").count() > 1 {
        return "repeated-sign";
    }
    "other"
}

fn size_class_of(c: &Case) -> String {
    c.form.rsplit(',').find(|s| s.starts_with('<') || s.starts_with('>') || *s == "zero" || s.starts_with("both") || s.starts_with("num") || s.starts_with("den")).unwrap_or("any").to_string()
}

/// Judge one observation.  `layer` = "expansion" (pre-pass) or "compiled" (real rustc expansion).
fn judge(rec: &mut Rec, c: &Case, obs: &Obs, layer: &str) -> bool {
    rec.step();
    let n0 = rec.findings.len() + rec.classes.iter().filter(|(k, _)| k.starts_with("finding:")).map(|(_, v)| *v as usize).sum::<usize>();
    judge_inner(rec, c, obs, layer);
    n0 == rec.findings.len() + rec.classes.iter().filter(|(k, _)| k.starts_with("finding:")).map(|(_, v)| *v as usize).sum::<usize>()
}

fn judge_inner(rec: &mut Rec, c: &Case, obs: &Obs, layer: &str) {
    let mac = c.mac();
    let fmac = fam_mac(c.fam);
    let case = || format!("{} [{}; run-time text {:?}{}]", c.show(), layer, c.text, c.radix.map(|r| format!(" radix {}", r)).unwrap_or_default());
    match obs {
        Obs::Skipped => {}
        Obs::Lex(e) => rec.fail(format!("{}|harness|unlexable-case|{}", P, fmac), case(), format!("token text does not lex: {}", e), "a token stream"),
        Obs::Undecodable(e) => {
            let (kind, class) = if e.contains("denote different numbers") {
                ("inconsistent-expansion", "word-arrays-differ".to_string())
            } else if e.contains("normalised") {
                ("inconsistent-expansion", "not-normalised".to_string())
            } else if e.contains("beyond LEN") {
                ("inconsistent-expansion", "nonzero-beyond-len".to_string())
            } else if e.contains("declared") || e.contains("LEN") {
                ("inconsistent-expansion", "length-mismatch".to_string())
            } else {
("undecodable-expansion", "code-shape".to_string())
            };
            rec.fail(format!("{}|{}!|{}|{}", P, mac, kind, class), case(), e.clone(), "one of the three documented code shapes (const u32 / from_le_bytes / static words) denoting one number");
        }
        Obs::Rejected(msg) => {
            rec.hit("rejected");
            let rt = rt_parse(c);
            if c.doc {
                rec.fail(format!("{}|{}!|rejected-valid-literal|{}", P, fmac, size_class_of(c)), case(), format!("compile error: {}", msg), format!("accepted (documented spelling; run-time parser gives {:?})", rt.map(|v| v.show())));
            } else if rt.is_ok() {
                rec.hit("unspecified:macro-stricter-than-run-time-parser");
            } else {
                rec.hit("rejected:as-the-run-time-parser");
            }
        }
        Obs::Accepted(d) => {
            rec.hit("accepted");
            rec.hit(&format!("path:{}", d.path.name()));
            let rt = rt_parse(c);
            let rf = ref_parse(c);
            let is_float = matches!(c.fam, Fam::F | Fam::D);
            let zero = matches!(&d.val, Val::Float { sig, .. } if sig.is_zero());
            let observed = || format!("{} via {}{}", d.val.show(), d.path.name(), if d.relaxed { " (Relaxed)" } else { "" });
            let rtv = match rt {
                Err(e) => {
                    if rf.is_some() {
                        rec.hit("unspecified:run-time-parser-rejects-documented-spelling");
                        None
                    } else {
                        rec.fail(format!("{}|{}!|accepted-outside-grammar|{}", P, fmac, anomaly(c)), case(), format!("accepted, builds {}", observed()), format!("compile error (run-time parser: {})", e));
                        return;
                    }
                }
                Ok(v) => Some(v),
            };
            if c.fam == Fam::R && d.relaxed != c.relaxed {
                rec.fail(format!("{}|{}!|wrong-type|relaxed-marker", P, mac), case(), observed(), if c.relaxed { "Relaxed" } else { "RBig" });
            }
            let vclass = if c.doc { size_class_of(c) } else { anomaly(c).to_string() };
            let rf_some = rf.is_some();
            let mut want: Vec<(&str, Val)> = vec![];
            if let Some(v) = rtv {
                want.push(("run-time parser", v));
            }
            match rf {
                Some(v) => want.push(("reference parser", v)),
                None => {
                    if std::env::var("DV_C20_DEBUG").is_ok() {
                        eprintln!("DEBUG undocumented-but-accepted: {} text {:?}", c.show(), c.text);
                    }
                    rec.hit("unspecified:spelling-outside-documented-grammar(run-time-parser-only)")
                }
            }
            for (who, w) in &want {
                if !same_value(&d.val, w) {
                    if !c.doc && anomaly(c) != "other" {
                        rec.fail(format!("{}|{}!|accepted-outside-grammar|{}", P, fmac, anomaly(c)), case(), format!("accepted, builds {}", observed()), format!("compile error, or {} (what the {} makes of the same text)", w.show(), who));
                    } else {
                        rec.fail(format!("{}|{}!|wrong-value|{},{}", P, mac, d.path.name(), vclass), case(), observed(), format!("{} ({})", w.show(), who));
                    }
                    return;
                }
                if is_float {
                    let wp = match w {
                        Val::Float { prec, .. } => *prec,
                        _ => 0,
                    };
                    match (d.path, d.prec) {
                        (Path::Static, None) => rec.hit("precision:static-words-unlimited(documented)"),
                        (Path::Static, Some(0)) => rec.hit("precision:static-words-unlimited(documented)"),
                        (Path::StaticConst, Some(0)) => rec.hit("precision:static-const-unlimited(documented)"),
                        (Path::Const | Path::StaticConst, None) => rec.hit("precision:left-to-the-constructor(judged-in-the-compiled-layer)"),
                        (_, Some(p)) if p == wp => rec.hit(if zero { "precision:equal,zero-significand" } else { "precision:equal" }),
                        (_, p) if !c.doc && anomaly(c) != "other" => {
                            rec.fail(format!("{}|{}!|accepted-outside-grammar|{}", P, fmac, anomaly(c)), case(), format!("accepted, builds {} with precision {:?}", observed(), p), format!("compile error, or precision {} (what the {} makes of the same text)", wp, who));
                            return;
                        }
                        (_, p) => {
                            rec.fail(format!("{}|{}!|wrong-precision|{},{},{}", P, mac, d.path.name(), if zero { "zero-significand" } else { "non-zero" }, if rf_some { "documented-spelling" } else { "undocumented-spelling" }), case(), format!("precision {:?} ({})", p, observed()), format!("precision {} ({})", wp, who));
                            return;
                        }
                    }
                }
                if let (Val::Ratio { n, d: dd }, Val::Ratio { n: wn, d: wd }) = (&d.val, w) {
                    if n != wn || dd != wd {
                        if c.relaxed {
                            rec.hit("relaxed:equal-value-different-representation");
                        } else if d.path == Path::Static || layer == "compiled" {
                            // RBig must be canonical; the static path transmutes without reducing
                            rec.fail(format!("{}|{}!|not-canonical|{}", P, mac, d.path.name()), case(), observed(), format!("{} ({})", w.show(), who));
                            return;
                        }
                    }
                }
            }
            if c.doc {
                rec.hit(&format!("doc-form:{}", c.form.split(',').next().unwrap_or("")));
            }
        }
    }
}

// ---------------------------------------------------------------------------------------------
// pre-pass driver

fn expand_all(gen: &Gen, cases: &[Case], threads: usize, only: Option<u64>) -> Result<Vec<Obs>, String> {
    let bin = gen.bin("c20_pre");
    let n = cases.len();
    let mut obs: Vec<Obs> = vec![Obs::Skipped; n];
    let idx: Vec<usize> = match only {
        Some(i) => {
            if (i as usize) < n {
                vec![i as usize]
            } else {
                vec![]
            }
        }
        None => (0..n).collect(),
    };
    if idx.is_empty() {
        return Ok(obs);
    }
    let chunk = (idx.len() / (threads.max(1) * 4)).clamp(1, 4000).max(1);
    let chunks: Vec<&[usize]> = idx.chunks(chunk).collect();
    let next = std::sync::atomic::AtomicUsize::new(0);
    let results: std::sync::Mutex<Vec<(usize, Obs)>> = std::sync::Mutex::new(Vec::with_capacity(idx.len()));
    let err: std::sync::Mutex<Option<String>> = std::sync::Mutex::new(None);
    std::thread::scope(|s| {
        for _ in 0..threads.max(1).min(chunks.len()) {
            s.spawn(|| loop {
                let k = next.fetch_add(1, std::sync::atomic::Ordering::Relaxed);
                if k >= chunks.len() {
                    break;
                }
                let ch = chunks[k];
                let mut input = String::new();
                for &i in ch {
                    input.push_str(&cases[i].mac());
                    input.push('\t');
                    input.push_str(&cases[i].src);
                    input.push('\n');
                }
                match run_with_input(&bin, &[], input.as_bytes()) {
                    Err(e) => {
                        *err.lock().unwrap() = Some(e);
                        break;
                    }
                    Ok((out, st)) => {
                        let lines: Vec<&str> = out.lines().collect();
                        if lines.len() != ch.len() || st != "exit 0" {
                            *err.lock().unwrap() = Some(format!("expander returned {} lines for {} cases ({}); first case of the chunk: {}", lines.len(), ch.len(), st, cases[ch[0]].show()));
                            break;
                        }
                        let mut local = Vec::with_capacity(ch.len());
                        for (l, &i) in lines.iter().zip(ch) {
                            let (tag, rest) = l.split_once('\t').unwrap_or((l, ""));
                            let o = match tag {
                                "OK" => match decode(&cases[i].mac(), rest) {
                                    Ok(d) => Obs::Accepted(d),
                                    Err(e) => Obs::Undecodable(format!("{} — in `{}`", e, crate::core::trunc(rest, 300))),
                                },
                                "PANIC" => Obs::Rejected(rest.to_string()),
                                _ => Obs::Lex(rest.to_string()),
                            };
                            local.push((i, o));
                        }
                        results.lock().unwrap().extend(local);
                    }
                }
            });
        }
    });
    if let Some(e) = err.into_inner().unwrap() {
        return Err(e);
    }
    for (i, o) in results.into_inner().unwrap() {
        obs[i] = o;
    }
    Ok(obs)
}

fn replay_target(ctx: &Ctx) -> Option<(String, u64)> {
    match &ctx.mode {
        Mode::Replay { sweep, index, .. } => Some((sweep.clone(), *index)),
        _ => None,
    }
}

/// run one pre-pass sweep: expand every case, judge every case
fn pre_sweep(ctx: &mut Ctx, gen: &Gen, name: &str, cases: &[Case], required: &[&str]) -> Vec<Obs> {
    let only = match replay_target(ctx) {
        Some((s, i)) => {
            if s == name {
                Some(i)
            } else {
                Some(u64::MAX)
            }
        }
        None => None,
    };
    let t0 = std::time::Instant::now();
    let obs = match expand_all(gen, cases, ctx.threads, only) {
        Ok(o) => o,
        Err(e) => {
            ctx.machinery(format!("pre-pass {}: {}", name, e));
            return vec![Obs::Skipped; cases.len()];
        }
    };
    let expand_s = t0.elapsed().as_secs_f64();
    ctx.sweep(name, cases.len() as u64, |i, rec| {
        let c = &cases[i as usize];
        let o = &obs[i as usize];
        judge(rec, c, o, "expansion");
        if c.doc || matches!(o, Obs::Accepted(_)) {
            rec.nontrivial();
        }
        rec.sample(|| format!("{} -> {}", c.show(), match o {
            Obs::Accepted(d) => format!("{} via {}", d.val.show(), d.path.name()),
            Obs::Rejected(m) => format!("compile error ({})", crate::core::trunc(m, 60)),
            o => format!("{:?}", o),
        }));
    });
    if let Some(s) = ctx.sweeps.iter_mut().find(|s| s.name == name) {
        s.extra.insert("expander_wall_s".into(), serde_json::json!((expand_s * 100.0).round() / 100.0));
    }
    ctx.require_classes(name, required);
    obs
}

// ---------------------------------------------------------------------------------------------
// compiled crates

fn parse_hex_signed(s: &str) -> Option<BigInt> {
    let (neg, h) = if let Some(r) = s.strip_prefix('-') { (true, r) } else { (false, s.strip_prefix('+')?) };
    let m = BigUint::parse_bytes(h.as_bytes(), 16)?;
    let v = BigInt::from(m);
    Some(if neg { -v } else { v })
}

fn parse_dump(fam: Fam, s: &str) -> Option<Val> {
    match fam {
        Fam::U | Fam::I => parse_hex_signed(s).map(Val::Int),
        Fam::F | Fam::D => {
            let mut it = s.split('|');
            let sig = parse_hex_signed(it.next()?)?;
            let exp: i64 = it.next()?.parse().ok()?;
            let prec: u64 = it.next()?.parse().ok()?;
            Some(Val::Float { sig, exp, base: if fam == Fam::F { 2 } else { 10 }, prec })
        }
        Fam::R => {
            let (n, d) = s.split_once('/')?;
            Some(Val::Ratio { n: parse_hex_signed(n)?, d: parse_hex_signed(d)? })
        }
    }
}

fn rust_str(s: &str) -> String {
    format!("\"{}\"", s.replace('\\', "\\\\").replace('"', "\\\""))
}

fn fits_u32(v: &BigInt) -> bool {
    v.magnitude().bits() <= 32
}

/// may the documentation's "can be assigned to a constant" be applied to this literal?
fn constable(c: &Case, d: &Dec) -> bool {
    if c.stat {
        return false;
    }
    match rt_parse(c) {
        Ok(Val::Int(v)) => fits_u32(&v),
        Ok(Val::Float { sig, exp, base, .. }) => fits_u32(&norm_float(&sig, exp, base).0),
        Ok(Val::Ratio { n, d }) => fits_u32(&n) && fits_u32(&d),
        Err(_) => d.path == Path::Const,
    }
}

fn row_source(i: usize, c: &Case, konst: bool, relaxed: bool) -> String {
    let mac = c.mac();
    let (ty, dump) = match (c.fam, relaxed) {
        (Fam::U, _) => ("UBig", "du"),
        (Fam::I, _) => ("IBig", "di"),
        (Fam::F, _) => ("F2", "df"),
        (Fam::D, _) => ("DBig", "df"),
        (Fam::R, false) => ("RBig", "dr"),
        (Fam::R, true) => ("Relaxed", "dx"),
    };
    let inv = format!("{}!({})", mac, c.src);
    let (bind, arg) = if c.stat {
        (format!("let m: &'static {} = {};", ty, inv), "m")
    } else if konst {
        (format!("const C: {} = {}; let m = C;", ty, inv), "&m")
    } else {
        (format!("let m: {} = {};", ty, inv), "&m")
    };
    let t = rust_str(&c.text);
    let rt = match (c.fam, c.radix) {
        (Fam::U | Fam::I, Some(n)) => format!("rt({}::from_str_radix({}, {}), |v| {}(v))", ty, t, n, dump),
        (Fam::U | Fam::I, None) => format!("rt({}::from_str_with_radix_prefix({}), |v| {}(&v.0))", ty, t, dump),
        (Fam::F | Fam::D, _) => format!("rt({}::from_str({}), |v| {}(v))", ty, t, dump),
        (Fam::R, Some(n)) => format!("rt({}::from_str_radix({}, {}), |v| {}(v))", ty, t, n, dump),
        (Fam::R, None) => format!("rt({}::from_str_with_radix_prefix({}), |v| {}(&v.0))", ty, t, dump),
    };
    format!("fn r{}() -> (String, String) {{ {} ({}({}), {}) }}", i, bind, dump, arg, rt)
}

fn facade_source(i: usize, c: &Case, konst: bool, relaxed: bool) -> String {
    let (ty, dump) = match (c.fam, relaxed) {
        (Fam::U, _) => ("UBig", "du"),
        (Fam::I, _) => ("IBig", "di"),
        (Fam::F, _) => ("F2", "df"),
        (Fam::D, _) => ("DBig", "df"),
        (Fam::R, false) => ("RBig", "dr"),
        (Fam::R, true) => ("Relaxed", "dx"),
    };
    let inv = format!("dashu::{}!({})", c.mac(), c.src);
    let (bind, arg) = if c.stat {
        (format!("let m: &'static {} = {};", ty, inv), "m")
    } else if konst {
        (format!("const C: {} = {}; let m = C;", ty, inv), "&m")
    } else {
        (format!("let m: {} = {};", ty, inv), "&m")
    };
    format!("fn q{}() -> String {{ {} {}({}) }}", i, bind, dump, arg)
}

struct OkRow {
    /// index into the compiled-case list
    case: usize,
    konst: bool,
    /// rustc diagnostics attributed to the row (the row was then removed and the crate rebuilt)
    compile_error: Option<String>,
    /// (macro value, run-time parse as printed by the generated program)
    output: Option<(String, String)>,
    /// the generated program died / panicked in this row
    died: Option<String>,
    /// also invoke the facade macro `dashu::M!` (→ `M_embedded!`, `::dashu::…` paths)
    facade: bool,
    facade_error: Option<String>,
    facade_out: Option<String>,
}

const FOFF: usize = 1 << 40;

fn ok_program(rows: &[OkRow], cases: &[(Case, Obs)]) -> (String, BTreeMap<u64, usize>) {
    let mut src = String::from(ROWS_PRELUDE);
    let mut line_of: BTreeMap<u64, usize> = BTreeMap::new();
    let mut line = src.lines().count() as u64;
    let mut names = vec![];
    for (k, r) in rows.iter().enumerate() {
        if r.compile_error.is_some() {
            continue;
        }
        line += 1;
        line_of.insert(line, k);
        let relaxed = match &cases[r.case].1 {
            Obs::Accepted(d) => d.relaxed,
            _ => cases[r.case].0.relaxed,
        };
        src.push_str(&row_source(k, &cases[r.case].0, r.konst, relaxed));
        src.push('\n');
        let q = if r.facade && r.facade_error.is_none() {
            line += 1;
            line_of.insert(line, k + FOFF);
            src.push_str(&facade_source(k, &cases[r.case].0, r.konst, relaxed));
            src.push('\n');
            format!("Some(q{k} as fn() -> String)")
        } else {
            "None".to_string()
        };
        names.push(format!("(r{k} as fn() -> (String, String), {q}, {k}usize)"));
    }
    src.push_str("static ROWS: &[(fn() -> (String, String), Option<fn() -> String>, usize)] = &[\n");
    for ch in names.chunks(8) {
        src.push_str(&ch.join(", "));
        src.push_str(",\n");
    }
    src.push_str("];\n");
    src.push_str(
        r#"fn main() {
    let start: usize = std::env::args().nth(1).map(|s| s.parse().unwrap()).unwrap_or(0);
    std::panic::set_hook(Box::new(|_| {}));
    for (f, q, id) in ROWS.iter() {
        if *id < start {
            continue;
        }
        println!("{}\tBEGIN", id);
        match std::panic::catch_unwind(*f) {
            Ok((m, r)) => println!("{}\tROW\t{}\t{}", id, m, r),
            Err(e) => {
                let msg = if let Some(s) = e.downcast_ref::<&str>() { s.to_string() } else if let Some(s) = e.downcast_ref::<String>() { s.clone() } else { "?".into() };
                println!("{}\tPANIC\t{}", id, msg.replace('\n', " "));
            }
        }
        if let Some(q) = q {
            match std::panic::catch_unwind(*q) {
                Ok(m) => println!("{}\tFACADE\t{}", id, m),
                Err(_) => println!("{}\tFACADE\tPANIC", id),
            }
        }
    }
}
"#,
    );
    (src, line_of)
}

/// build + run the crate of accepted invocations; fills compile_error / output / died of each row
fn run_ok_crate(ctx: &mut Ctx, gen: &Gen, name: &str, rows: &mut [OkRow], cases: &[(Case, Obs)]) {
    let mut rounds = 0;
    loop {
        rounds += 1;
        let (src, line_of) = ok_program(rows, cases);
        let facade_dep = format!("dashu = {{ path = \"{}\", default-features = false }}\n", gen.repo);
        if let Err(e) = gen.write_crate(name, true, &facade_dep, &src) {
            ctx.machinery(format!("cannot write {}: {}", name, e));
            return;
        }
        let b = gen.build(name);
        if b.ok {
            break;
        }
        let (per_row, stray) = attribute(&b.errors, &line_of);
        if per_row.is_empty() || rounds > 6 {
            ctx.machinery(format!("{}: build failed and the errors cannot be attributed to invocations: {} {}", name, crate::core::trunc(&stray.join(" | "), 600), crate::core::trunc(&b.other, 600)));
            return;
        }
        for (k, text) in per_row {
            if k >= FOFF {
                rows[k - FOFF].facade_error = Some(text);
            } else {
                rows[k].compile_error = Some(text);
            }
        }
    }
    // run, continuing after a row that kills the process
    let mut start = 0usize;
    let mut deaths = 0;
    loop {
        let (out, st) = match run_with_input(&gen.bin(name), &[start.to_string()], b"") {
            Ok(x) => x,
            Err(e) => {
                ctx.machinery(format!("{}: {}", name, e));
                return;
            }
        };
        let mut begun: Option<usize> = None;
        for l in out.lines() {
            let mut it = l.splitn(4, '\t');
            let id: usize = match it.next().and_then(|s| s.parse().ok()) {
                Some(i) => i,
                None => continue,
            };
            if id >= rows.len() {
                continue;
            }
            match it.next() {
                Some("BEGIN") => begun = Some(id),
                Some("ROW") => {
                    let m = it.next().unwrap_or("").to_string();
                    let r = it.next().unwrap_or("").to_string();
                    rows[id].output = Some((m, r));
                    begun = None;
                }
                Some("PANIC") => {
                    rows[id].died = Some(format!("panic: {}", it.next().unwrap_or("")));
                    begun = None;
                }
                Some("FACADE") => rows[id].facade_out = Some(it.next().unwrap_or("").to_string()),
                _ => {}
            }
        }
        if st == "exit 0" {
            break;
        }
        deaths += 1;
        match begun {
            Some(id) if deaths <= 50 => {
                rows[id].died = Some(format!("process died: {}", st));
                start = id + 1;
            }
            _ => {
                ctx.machinery(format!("{}: generated program ended with {} outside a row", name, st));
                return;
            }
        }
    }
}

fn err_program(rows: &[usize], cases: &[(Case, Obs)]) -> (String, BTreeMap<u64, usize>) {
    let mut src = String::from("// generated by dv c20: every line `fn eN` holds one invocation that must not compile\n#![allow(unused_imports, dead_code)]\nuse dashu_macros::*;\n");
    let mut line_of = BTreeMap::new();
    let mut line = src.lines().count() as u64;
    for (k, &ci) in rows.iter().enumerate() {
        let c = &cases[ci].0;
        line += 1;
        line_of.insert(line, k);
        src.push_str(&format!("fn e{}() {{ let _ = {}!({}); }}\n", k, c.mac(), c.src));
    }
    src.push_str("fn main() {}\n");
    (src, line_of)
}

pub fn run(ctx: &mut Ctx) {
    ctx.rule = "programs = macro invocations `M!(tokens)` for M in {ubig, ibig, fbig, dbig, rbig} x {plain, static_}. (1) constructive grammar walk: every magnitude of the listed set x every spelling (decimal, 0b/0o/0x prefixes, `base N` as literal / identifier / suffixed literal, underscores, leading zeros, upper case; floats: point position, trailing/leading zeros, exponent markers and signs, hex-float spellings; ratios: n/d, omitted denominator, prefixes on both or on the numerator only, `~`, signs on both components) x sign x static/plain; (2) every token sequence of length <= L over a 16-token alphabet per macro family, plus a hand-written list of literals at or outside the edge of the grammar. Every program is expanded by the macro crate's own code generators (pre-pass) and the emitted code is decoded; a stated subset is compiled by rustc against the working tree and run. An accepted literal must denote the value (and precision) the run-time parser gives for the same text and the value of the independent reference parser; a literal the run-time parser rejects must be a compile error. non-trivial = documented spelling or accepted literal".into();
    ctx.assume("the run-time parsers (from_str_radix / from_str_with_radix_prefix / FromStr) are the yardstick named by the property; the reference parser (own code over num_bigint, written from the documentation) is the second yardstick for documented spellings");
    ctx.assume("white space between tokens is invisible to a proc-macro: the 'same text' is the concatenation of the tokens; for fbig! the one underscore prefix documented in fbig.md is dropped; `~` selects Relaxed");
    ctx.assume("static_fbig!/static_dbig! are documented to produce unlimited precision; for static floats both the parsed precision and 0 are accepted");
    ctx.assume("a macro that rejects text the run-time parser would accept (e.g. ubig!(+5)) is allowed: the property quantifies over accepted literals");
    ctx.assume("the facade forms (`dashu::ubig!` → ubig_embedded!, emitting `::dashu::integer::…` paths) share the parser with the dashu_macros forms; they are compiled for the plain spellings of the quick compile set and must build the identical value");
    let quick = ctx.quick();

    // reference self-checks
    {
        let mut ok = true;
        for (s, r) in [("0", 10u32), ("1_000", 10), ("ff", 16), ("FF", 16), ("zz", 36), ("_1_", 2), ("340282366920938463463374607431768211455", 10), ("1111", 2), ("777", 8)] {
            ok &= ref_digits(s, r).map(|v| v.to_string()) == horner_u128(s, r).map(|v| v.to_string());
        }
        ok &= ref_digits("_", 10).is_none() && ref_digits("12", 2).is_none() && ref_digits("", 10).is_none() && ref_digits("g", 16).is_none();
        ok &= ref_int("-0x1f", None, true) == Some(BigInt::from(-31)) && ref_int("-5", None, false).is_none() && ref_int("+7ab", Some(32), false) == Some(BigInt::from(7499));
        ok &= ref_float("-1.23400e-3", 10) == Some((BigInt::from(-123400), -8, 6)) && ref_float("-123.4@-05", 10) == Some((BigInt::from(-1234), -6, 4));
        ok &= ref_float("0x03.efp-2", 2) == Some((BigInt::from(0x3ef), -10, 16)) && ref_float("11.001", 2) == Some((BigInt::from(0b11001), -3, 5)) && ref_float("1.101B-3", 2) == Some((BigInt::from(0b1101), -6, 4));
        ok &= ref_float("0x1.234p-3", 10).is_none() && ref_float("1p3", 2).is_none() && ref_float(".", 10).is_none() && ref_float("00012.34", 10).map(|x| x.2) == Some(7);
        ok &= ref_ratio("+0o17/25", None) == Some((BigInt::from(0o17), BigInt::from(0o25))) && ref_ratio("-0x1f/-0x1e", None) == Some((BigInt::from(0x1f), BigInt::from(0x1e))) && ref_ratio("0x10/0b11", None).is_none() && ref_ratio("+7ab/-sse", Some(32)) == Some((BigInt::from(-7499), BigInt::from(29582)));
        // the reader of emitted code, on hand-written expansions
        let d = decode("ubig", ":: dashu_int :: UBig :: from_dword (123u32 as _)");
        ok &= matches!(&d, Ok(Dec { val: Val::Int(v), path: Path::Const, .. }) if *v == BigInt::from(123));
        let d = decode("ibig", ":: dashu_int :: IBig :: from_parts (:: dashu_base :: Sign :: Negative , { const BYTES : [u8 ; 9usize] = [0 , 0 , 0 , 0 , 0 , 0 , 0 , 0 , 1 ,] ; :: dashu_int :: UBig :: from_le_bytes (& BYTES) })");
        ok &= matches!(&d, Ok(Dec { val: Val::Int(v), path: Path::Heap, .. }) if *v == -BigInt::from(pow2(64)));
        let d = decode("dbig", ":: dashu_float :: DBig :: from_parts_const (:: dashu_base :: Sign :: Negative , 1234u32 as _ , - 5isize , Some (5usize))");
        ok &= matches!(&d, Ok(Dec { val: Val::Float { sig, exp: -5, base: 10, prec: 5 }, .. }) if *sig == BigInt::from(-1234));
        ok &= decode("ubig", ":: dashu_int :: UBig :: from_dword (4294967296u32 as _)").is_err();
        ok &= split_src("1.5e-3 base 10") == vec!["1.5e-3", "base", "10"] && split_src("0x1._8p-3") == vec!["0x1", ".", "_8p", "-", "3"] && split_src("-_0xae.1f") == vec!["-", "_0xae", ".", "1f"] && split_src("1._5") == vec!["1", ".", "_5"] && split_src("1.e5") == vec!["1", ".", "e5"];
        if !ok {
            ctx.machinery("reference parser / expansion reader failed its self-check");
            return;
        }
    }

    let gen = Gen::new();
    // the expander
    if let Err(e) = gen.write_crate("c20_pre", false, "proc-macro2 = \"1\"\nquote = \"1\"\npaste = \"1\"\nrustversion = \"1\"\n", &expander_main(&gen.repo)) {
        ctx.machinery(format!("cannot write gen/c20_pre: {}", e));
        return;
    }
    let t0 = std::time::Instant::now();
    let b = gen.build("c20_pre");
    if !b.ok {
        ctx.machinery(format!("the expander (macros/src/parse/*.rs outside rustc) does not build: {} {}", b.errors.iter().map(|e| e.text.clone()).collect::<Vec<_>>().join(" | "), b.other));
        return;
    }
    ctx.bound("expander_build_wall_s", (t0.elapsed().as_secs_f64() * 10.0).round() / 10.0);

    // universes
    let ms = mags(quick, ctx.seed);
    let heavy_f: Vec<BigUint> = [0u64, 1, 5, 12, 255, u32::MAX as u64, 1 << 32, u64::MAX].iter().map(|&x| BigUint::from(x)).chain([pow2(64) + BigUint::one()]).collect();
    let heavy_r: Vec<BigUint> = [0u64, 1, 2, 6, 255, u32::MAX as u64, 1 << 32].iter().map(|&x| BigUint::from(x)).chain([pow2(64), pow2(128) + BigUint::one()]).collect();
    let mut ints = vec![];
    int_cases(&ms, quick, &mut ints);
    let mut floats = vec![];
    let fms: Vec<BigUint> = if quick { ms.clone() } else { ms.iter().filter(|m| m.bits() <= 200 || mags_boundary().contains(m)).cloned().collect() };
    let mut fall = fms.clone();
    fall.extend(heavy_f.iter().cloned());
    fall.sort();
    fall.dedup();
    float_cases(&fall, &heavy_f, &mut floats);
    let mut ratios = vec![];
    let rms: Vec<BigUint> = if quick { mags_boundary().into_iter().chain(ms.iter().filter(|m| m.bits() % 16 == 0 || m.bits() % 16 == 1).cloned()).collect() } else { ms.iter().filter(|m| m.bits() <= 200 || mags_boundary().contains(m)).cloned().collect() };
    let mut rall = rms.clone();
    rall.sort();
    rall.dedup();
    ratio_cases(&rall, &heavy_r, quick, &mut ratios);
    let maxlen = ctx.pick(3usize, 4usize);
    let mut tokens = vec![];
    for fam in [Fam::U, Fam::I, Fam::F, Fam::D, Fam::R] {
        token_cases(fam, maxlen, &mut tokens);
    }
    let mut hand = vec![];
    invalid_cases(&mut hand);
    ctx.bound("magnitudes", ms.len() as u64);
    ctx.bound("magnitude_bits_max", ms.iter().map(|m| m.bits()).max().unwrap_or(0));
    ctx.bound("token_sequence_max_len", maxlen as u64);
    ctx.bound("token_alphabet_size", 16);
    ctx.bound("int_bases", serde_json::json!(if quick { INT_BASES_Q.to_vec() } else { INT_BASES_T.to_vec() }));

    // pre-pass sweeps
    let o_int = pre_sweep(ctx, &gen, "expansion.int", &ints, &["accepted", "path:const", "path:heap", "path:static-words", "doc-form:dec", "doc-form:prefix-hex", "doc-form:prefix-bin", "doc-form:prefix-oct", "doc-form:base36", "doc-form:base3"]);
    let o_float = pre_sweep(ctx, &gen, "expansion.float", &floats, &["accepted", "path:const", "path:heap", "path:static-words", "path:static-const", "precision:equal", "precision:equal,zero-significand", "precision:static-words-unlimited(documented)"]);
    let o_ratio = pre_sweep(ctx, &gen, "expansion.ratio", &ratios, &["accepted", "path:const", "path:heap", "path:static-words", "relaxed:equal-value-different-representation"]);
    let _o_tok = pre_sweep(ctx, &gen, "expansion.tokens", &tokens, &["accepted", "rejected", "rejected:as-the-run-time-parser", "unspecified:macro-stricter-than-run-time-parser"]);
    let o_hand = pre_sweep(ctx, &gen, "expansion.hand-written", &hand, &["accepted", "rejected", "rejected:as-the-run-time-parser"]);

    // compiled layer
    let tier_level = if quick { 1 } else { 2 };
    let mut comp: Vec<(Case, Obs)> = vec![];
    for (cs, os) in [(&ints, &o_int), (&floats, &o_float), (&ratios, &o_ratio), (&hand, &o_hand)] {
        for (c, o) in cs.iter().zip(os.iter()) {
            if c.compile != 0 && c.compile <= tier_level {
                comp.push((c.clone(), o.clone()));
            }
        }
    }
    let replay = replay_target(ctx);
    if replay.as_ref().map_or(false, |(s, _)| s != "compiled") {
        return;
    }
    // a replay compiles only its own invocation (the index is the position in the stable list of
    // compiled cases, so it denotes the same literal on every tree)
    let only: Option<usize> = replay.as_ref().map(|(_, i)| *i as usize);
    if let Some(i) = only {
        if i >= comp.len() {
            ctx.machinery(format!("replay index {} outside the compiled list ({})", i, comp.len()));
            return;
        }
        let cs = vec![comp[i].0.clone()];
        match expand_all(&gen, &cs, 1, None) {
            Ok(mut os) => comp[i].1 = os.pop().unwrap(),
            Err(e) => {
                ctx.machinery(format!("replay: {}", e));
                return;
            }
        }
    }
    let chosen = |i: usize| only.map_or(true, |o| o == i);
    // expansions the reader could not interpret are still compiled and run: rustc is the judge
    for x in comp.iter_mut() {
        if let Obs::Undecodable(_) = &x.1 {
            let val = rt_parse(&x.0).unwrap_or(Val::Int(BigInt::zero()));
            x.1 = Obs::Accepted(Dec { val, prec: None, relaxed: x.0.relaxed, path: Path::Unknown });
        }
    }
    let ok_idx: Vec<usize> = (0..comp.len()).filter(|&i| chosen(i) && matches!(comp[i].1, Obs::Accepted(_))).collect();
    let err_idx: Vec<usize> = (0..comp.len()).filter(|&i| chosen(i) && matches!(comp[i].1, Obs::Rejected(_))).collect();
    ctx.bound("compiled_invocations_expected_to_compile", ok_idx.len() as u64);
    ctx.bound("compiled_invocations_expected_to_fail", err_idx.len() as u64);
    ctx.bound("generated_crate_profile", "dev profile, opt-level 1: debug assertions and overflow checks of the library are on; dashu crates with default-features = false");
    let (ok_name, err_name) = if replay.is_some() { ("c20_ok_replay", "c20_err_replay") } else { ("c20_ok", "c20_err") };

    // --- gen/c20_ok: build, run
    let mut rows: Vec<OkRow> = ok_idx
        .iter()
        .map(|&ci| {
            let konst = match &comp[ci].1 {
                Obs::Accepted(d) => constable(&comp[ci].0, d),
                _ => false,
            };
            let c = &comp[ci].0;
            let facade = c.doc && c.compile == 1 && !c.form.contains("zeros") && !c.form.contains("underscores") && !c.form.contains("suffixed") && !c.form.contains("prefix-bin") && !c.form.contains("base3,") && !c.src.starts_with(['-', '+']);
            OkRow { case: ci, konst, compile_error: None, output: None, died: None, facade, facade_error: None, facade_out: None }
        })
        .collect();
    let t0 = std::time::Instant::now();
    if !rows.is_empty() {
        run_ok_crate(ctx, &gen, ok_name, &mut rows, &comp);
    }
    let ok_wall = t0.elapsed().as_secs_f64();
    let ok_pos: BTreeMap<usize, usize> = rows.iter().enumerate().map(|(k, r)| (r.case, k)).collect();

    // --- gen/c20_err: build with JSON diagnostics
    let t0 = std::time::Instant::now();
    let mut err_row: BTreeMap<usize, String> = BTreeMap::new();
    let err_pos: BTreeMap<usize, usize> = err_idx.iter().enumerate().map(|(k, &ci)| (ci, k)).collect();
    if !err_idx.is_empty() {
        let (src, line_of) = err_program(&err_idx, &comp);
        if let Err(e) = gen.write_crate(err_name, true, "", &src) {
            ctx.machinery(format!("cannot write {}: {}", err_name, e));
            return;
        }
        let b = gen.build(err_name);
        if !b.ok && b.errors.is_empty() {
            ctx.machinery(format!("{}: build failed without diagnostics in the generated crate: {}", err_name, crate::core::trunc(&b.other, 600)));
            return;
        }
        let (per_row, stray) = attribute(&b.errors, &line_of);
        if !stray.is_empty() {
            ctx.machinery(format!("{}: compile errors outside the invocation lines: {}", err_name, crate::core::trunc(&stray.join(" | "), 600)));
        }
        err_row = per_row;
    }
    let err_wall = t0.elapsed().as_secs_f64();

    let (rows_ref, comp_ref) = (&rows, &comp);
    ctx.sweep("compiled", comp.len() as u64, |i, rec| {
        let (c, o) = &comp_ref[i as usize];
        match o {
            Obs::Accepted(pre) => {
                let r = match ok_pos.get(&(i as usize)) {
                    Some(k) => &rows_ref[*k],
                    None => return,
                };
                rec.nontrivial();
                let case = || format!("{} [compiled by rustc{}; run-time text {:?}]", c.show(), if r.konst { " in a const item" } else { "" }, c.text);
                if let Some(e) = &r.compile_error {
                    rec.step();
                    rec.fail(format!("{}|{}!|expansion-does-not-compile|{},{}", P, c.mac(), pre.path.name(), if r.konst { "const-item" } else { "let" }), case(), format!("rustc: {}", e), format!("compiles{} and yields {}", if r.konst { " (documented: small literals can be assigned to a constant)" } else { "" }, pre.val.show()));
                    return;
                }
                if let Some(d) = &r.died {
                    rec.step();
                    rec.fail(format!("{}|{}!|run-time-failure|{}", P, c.mac(), pre.path.name()), case(), d.clone(), format!("yields {}", pre.val.show()));
                    return;
                }
                let (m, rt) = match &r.output {
                    Some(x) => x,
                    None => {
                        rec.fail(format!("{}|harness|row-without-output|{}", P, fam_mac(c.fam)), case(), "no output line", "a row");
                        return;
                    }
                };
                let mv = match parse_dump(c.fam, m) {
                    Some(v) => v,
                    None => {
                        rec.fail(format!("{}|harness|unreadable-row|{}", P, fam_mac(c.fam)), case(), m.clone(), "a value dump");
                        return;
                    }
                };
                rec.hit(if r.konst { "const-item" } else if c.stat { "static-reference" } else { "let-binding" });
                // the value really built, judged like the decoded one
                let built = Dec { val: mv.clone(), prec: match &mv { Val::Float { prec, .. } => Some(*prec), _ => None }, relaxed: pre.relaxed, path: pre.path };
                if !judge(rec, c, &Obs::Accepted(built), "compiled") {
                    return;
                }
                // the generated program's own run-time parse (no_std build of the library)
                rec.step();
                if let Some(e) = rt.strip_prefix("ERR:") {
                    if rt_parse(c).is_ok() {
                        rec.fail(format!("{}|{}|run-time-parser-differs-between-builds|err-vs-ok", P, fam_mac(c.fam)), case(), format!("generated program: {}", e), "Ok as in the harness build");
                    }
                } else {
                    match parse_dump(c.fam, rt) {
                        Some(rv) => {
                            let same = match (&mv, &rv) {
                                (Val::Float { sig: s1, exp: e1, prec: p1, .. }, Val::Float { sig: s2, exp: e2, prec: p2, .. }) => s1 == s2 && e1 == e2 && (p1 == p2 || (c.stat && *p1 == 0)),
                                (a, b) => a == b || (c.relaxed && same_value(a, b)),
                            };
                            if same {
                                rec.hit("identical-to-run-time-parse-in-the-same-program");
                            } else {
                                rec.fail(format!("{}|{}!|differs-from-run-time-parse|{}", P, c.mac(), pre.path.name()), case(), mv.show(), rv.show());
                            }
                        }
                        None => rec.fail(format!("{}|harness|unreadable-row|{}", P, fam_mac(c.fam)), case(), rt.clone(), "a value dump"),
                    }
                }
                // the facade macro (`dashu::M!` → `M_embedded!`) must build the identical value
                if r.facade {
                    rec.step();
                    match (&r.facade_error, &r.facade_out) {
                        (Some(e), _) => rec.fail(format!("{}|dashu::{}!|expansion-does-not-compile|{}", P, c.mac(), pre.path.name()), case(), format!("rustc: {}", e), "compiles like the dashu_macros form"),
                        (None, Some(f)) if f == m => rec.hit("facade:identical"),
                        (None, f) => rec.fail(format!("{}|dashu::{}!|differs-from-dashu_macros-form|{}", P, c.mac(), pre.path.name()), case(), format!("{:?}", f), m.clone()),
                    }
                }
                // the pre-pass must have predicted the same number
                if pre.path == Path::Unknown {
                    rec.hit("pre-pass-could-not-read-the-expansion");
                    return;
                }
                rec.step();
                if same_value(&pre.val, &mv) {
                    rec.hit("pre-pass-agrees");
                } else {
                    rec.fail(format!("{}|{}!|constructor-changes-value|{}", P, c.mac(), pre.path.name()), case(), format!("built {}", mv.show()), format!("emitted code denotes {}", pre.val.show()));
                }
                rec.sample(|| format!("{} -> {}", c.show(), mv.show()));
            }
            Obs::Rejected(_) => {
                let k = match err_pos.get(&(i as usize)) {
                    Some(k) => *k,
                    None => return,
                };
                rec.nontrivial();
                match err_row.get(&k) {
                    Some(e) => {
                        rec.hit("compile-error");
                        rec.hit(if e.contains("proc macro panicked") || e.contains("proc-macro") { "error:proc-macro-panic" } else { "error:other" });
                        // whether the literal had to be rejected is judged exactly as in the pre-pass
                        judge(rec, c, &Obs::Rejected(crate::core::trunc(e, 200)), "compiled");
                    }
                    None => {
                        rec.step();
                        rec.fail(format!("{}|{}!|rustc-accepts-what-the-expander-rejects|{}", P, fam_mac(c.fam), anomaly(c)), format!("{} [compiled by rustc]", c.show()), "no compile error on the invocation line", "a compile error (the macro's code generator panics on this token stream outside rustc)");
                    }
                }
                rec.sample(|| format!("{} -> {}", c.show(), err_row.get(&k).map(|e| crate::core::trunc(e, 80)).unwrap_or_default()));
            }
            other => {
                // undecodable / unlexable cases were reported by the pre-pass sweep
                rec.hit(match other {
                    Obs::Skipped => "skipped:not-selected",
                    _ => "skipped:reported-by-the-pre-pass",
                });
            }
        }
    });
    if let Some(s) = ctx.sweeps.iter_mut().find(|s| s.name == "compiled") {
        s.extra.insert("c20_ok_build_and_run_wall_s".into(), serde_json::json!((ok_wall * 10.0).round() / 10.0));
        s.extra.insert("c20_err_build_wall_s".into(), serde_json::json!((err_wall * 10.0).round() / 10.0));
        s.extra.insert("invocations_in_c20_ok".into(), serde_json::json!(rows.len()));
        s.extra.insert("invocations_in_c20_err".into(), serde_json::json!(err_idx.len()));
    }
    ctx.require_classes("compiled", &["const-item", "static-reference", "let-binding", "path:const", "path:heap", "path:static-words", "path:static-const", "identical-to-run-time-parse-in-the-same-program", "pre-pass-agrees", "precision:equal", "compile-error", "error:proc-macro-panic", "rejected:as-the-run-time-parser", "facade:identical"]);
}
