//! Small helpers shared by the checks: result comparison with uniform signatures.

use crate::core::Rec;
use crate::uni::*;
use dashu_int::{IBig, UBig};
use num_bigint::{BigInt, BigUint};

/// compare an IBig result (or a panic) with the reference value
pub fn expect_i(rec: &mut Rec, prop: &str, site: &str, class: &str, got: Result<IBig, String>, want: &BigInt, case: impl FnOnce() -> String) -> bool {
    rec.step();
    match got {
        Ok(g) => {
            let gr = i_to_ref(&g);
            if &gr != want {
                rec.fail(format!("{}|{}|wrong-value|{}", prop, site, class), case(), hex(&gr), hex(want));
                return false;
            }
            true
        }
        Err(p) => {
            rec.fail(format!("{}|{}|panic|{}", prop, site, class), case(), format!("panic: {}", p), hex(want));
            false
        }
    }
}

pub fn expect_u(rec: &mut Rec, prop: &str, site: &str, class: &str, got: Result<UBig, String>, want: &BigUint, case: impl FnOnce() -> String) -> bool {
    rec.step();
    match got {
        Ok(g) => {
            let gr = u_to_ref(&g);
            if &gr != want {
                rec.fail(format!("{}|{}|wrong-value|{}", prop, site, class), case(), hexu(&gr), hexu(want));
                return false;
            }
            true
        }
        Err(p) => {
            rec.fail(format!("{}|{}|panic|{}", prop, site, class), case(), format!("panic: {}", p), hexu(want));
            false
        }
    }
}

/// the operation must panic (documented precondition); `what` names the precondition
pub fn expect_panic<T: std::fmt::Debug>(rec: &mut Rec, prop: &str, site: &str, what: &str, got: Result<T, String>, case: impl FnOnce() -> String) -> bool {
    rec.step();
    match got {
        Ok(v) => {
            rec.fail(format!("{}|{}|missing-panic|{}", prop, site, what), case(), crate::core::trunc(&format!("returned {:?}", v), 300), format!("panic ({})", what));
            false
        }
        Err(p) => {
            if crate::core::is_internal_panic(&p) {
                rec.fail(format!("{}|{}|internal-panic|{}", prop, site, what), case(), format!("panic: {}", p), format!("the documented panic ({}), not an internal assertion/overflow", what));
                return false;
            }
            true
        }
    }
}

/// generic equality expectation on debug-printable values
pub fn expect_eq<T: PartialEq + std::fmt::Debug>(rec: &mut Rec, prop: &str, site: &str, class: &str, got: Result<T, String>, want: &T, case: impl FnOnce() -> String) -> bool {
    rec.step();
    match got {
        Ok(g) => {
            if &g != want {
                rec.fail(format!("{}|{}|wrong-value|{}", prop, site, class), case(), format!("{:?}", g), format!("{:?}", want));
                return false;
            }
            true
        }
        Err(p) => {
            rec.fail(format!("{}|{}|panic|{}", prop, site, class), case(), format!("panic: {}", p), format!("{:?}", want));
            false
        }
    }
}

pub fn lens_class(a: &BigUint, b: &BigUint) -> String {
    format!("{}x{}", size_class(word_len(a)), size_class(word_len(b)))
}

/// mixed-radix decode of a flat index: returns digits for the given radices (last varies fastest)
pub fn unflatten<const N: usize>(mut i: u64, radices: [u64; N]) -> [usize; N] {
    let mut out = [0usize; N];
    for k in (0..N).rev() {
        out[k] = (i % radices[k]) as usize;
        i /= radices[k];
    }
    out
}
