//! Reference side for floats and rationals: exact fractions over BigInt, the *definition* of the
//! rounding contract (DESIGN §3.5 refrat / refround), float universes F(B,P,E), mode dispatch.

use crate::uni::*;
use dashu_float::round::{mode, Round, Rounding};
use dashu_float::{Context, FBig, Repr};
use dashu_int::Word;
use num_bigint::{BigInt, Sign as NSign};
use num_integer::Integer;
use num_traits::{One, Pow, Signed, Zero};
use std::cmp::Ordering;

// ---------------------------------------------------------------------------------------------
// exact fractions

#[derive(Clone, Debug, PartialEq, Eq)]
pub struct Rat {
    pub n: BigInt,
    pub d: BigInt, // > 0, gcd(n, d) = 1
}

impl Rat {
    pub fn new(n: BigInt, d: BigInt) -> Rat {
        assert!(!d.is_zero(), "Rat with zero denominator");
        let g = n.gcd(&d);
        let (mut n, mut d) = if g.is_one() || g.is_zero() { (n, d) } else { (n / &g, d / &g) };
        if d.sign() == NSign::Minus {
            n = -n;
            d = -d;
        }
        if n.is_zero() {
            d = BigInt::one();
        }
        Rat { n, d }
    }
    pub fn int(n: BigInt) -> Rat {
        Rat { n, d: BigInt::one() }
    }
    pub fn from_i(n: i64) -> Rat {
        Rat::int(BigInt::from(n))
    }
    pub fn zero() -> Rat {
        Rat::from_i(0)
    }
    /// s * base^e
    pub fn scaled(s: &BigInt, base: u32, e: i64) -> Rat {
        if e >= 0 {
            Rat::int(s * pow_b(base, e as u64))
        } else {
            Rat::new(s.clone(), pow_b(base, (-e) as u64))
        }
    }
    pub fn is_zero(&self) -> bool {
        self.n.is_zero()
    }
    pub fn is_neg(&self) -> bool {
        self.n.sign() == NSign::Minus
    }
    pub fn is_int(&self) -> bool {
        self.d.is_one()
    }
    pub fn sgn(&self) -> i32 {
        match self.n.sign() {
            NSign::Minus => -1,
            NSign::NoSign => 0,
            NSign::Plus => 1,
        }
    }
    pub fn abs(&self) -> Rat {
        Rat { n: self.n.abs(), d: self.d.clone() }
    }
    pub fn neg(&self) -> Rat {
        Rat { n: -&self.n, d: self.d.clone() }
    }
    pub fn add(&self, o: &Rat) -> Rat {
        Rat::new(&self.n * &o.d + &o.n * &self.d, &self.d * &o.d)
    }
    pub fn sub(&self, o: &Rat) -> Rat {
        Rat::new(&self.n * &o.d - &o.n * &self.d, &self.d * &o.d)
    }
    pub fn mul(&self, o: &Rat) -> Rat {
        Rat::new(&self.n * &o.n, &self.d * &o.d)
    }
    pub fn div(&self, o: &Rat) -> Rat {
        assert!(!o.is_zero());
        Rat::new(&self.n * &o.d, &self.d * &o.n)
    }
    pub fn half(&self) -> Rat {
        Rat::new(self.n.clone(), &self.d * 2)
    }
    pub fn floor(&self) -> BigInt {
        self.n.div_floor(&self.d)
    }
    pub fn ceil(&self) -> BigInt {
        -((-&self.n).div_floor(&self.d))
    }
    pub fn trunc(&self) -> BigInt {
        &self.n / &self.d
    }
    pub fn powi(&self, e: i64) -> Rat {
        if e >= 0 {
            Rat::new(Pow::pow(self.n.clone(), e as u64), Pow::pow(self.d.clone(), e as u64))
        } else {
            assert!(!self.is_zero());
            Rat::new(Pow::pow(self.d.clone(), (-e) as u64), Pow::pow(self.n.clone(), (-e) as u64))
        }
    }
    /// floor(log_base |self|), self != 0
    pub fn floor_log(&self, base: u32) -> i64 {
        assert!(!self.is_zero());
        let a = self.abs();
        let mut k = digits_b(&a.n, base) as i64 - digits_b(&a.d, base) as i64; // within +-1 of the answer
        // want largest k with base^k <= a
        loop {
            let c = a.cmp(&Rat::scaled(&BigInt::one(), base, k));
            if c == Ordering::Less {
                k -= 1;
            } else if a.cmp(&Rat::scaled(&BigInt::one(), base, k + 1)) != Ordering::Less {
                k += 1;
            } else {
                return k;
            }
        }
    }
    pub fn show(&self) -> String {
        if self.d.is_one() {
            format!("{}", self.n)
        } else {
            format!("{}/{}", self.n, self.d)
        }
    }
}

impl PartialOrd for Rat {
    fn partial_cmp(&self, o: &Rat) -> Option<Ordering> {
        Some(self.cmp(o))
    }
}
impl Ord for Rat {
    fn cmp(&self, o: &Rat) -> Ordering {
        (&self.n * &o.d).cmp(&(&o.n * &self.d))
    }
}

pub fn pow_b(base: u32, e: u64) -> BigInt {
    Pow::pow(BigInt::from(base), e)
}

/// number of base-`base` digits of |x| (0 for 0)
pub fn digits_b(x: &BigInt, base: u32) -> usize {
    if x.is_zero() {
        return 0;
    }
    if base == 2 {
        return x.bits() as usize;
    }
    x.magnitude().to_radix_le(base).len()
}

// ---------------------------------------------------------------------------------------------
// exact real values that can be compared with rationals

pub trait ExactReal {
    /// compare the exact value with q
    fn cmp_rat(&self, q: &Rat) -> Ordering;
    /// floor(log_base |x|); x != 0
    fn floor_log(&self, base: u32) -> i64;
    fn is_zero(&self) -> bool;
    fn describe(&self) -> String;
}

impl ExactReal for Rat {
    fn cmp_rat(&self, q: &Rat) -> Ordering {
        self.cmp(q)
    }
    fn floor_log(&self, base: u32) -> i64 {
        Rat::floor_log(self, base)
    }
    fn is_zero(&self) -> bool {
        Rat::is_zero(self)
    }
    fn describe(&self) -> String {
        self.show()
    }
}

/// the non-negative square root of a non-negative rational
pub struct SqrtOf(pub Rat);
impl ExactReal for SqrtOf {
    fn cmp_rat(&self, q: &Rat) -> Ordering {
        if q.is_neg() {
            return Ordering::Greater;
        }
        self.0.cmp(&q.mul(q))
    }
    fn floor_log(&self, base: u32) -> i64 {
        self.0.floor_log(base).div_floor(&2)
    }
    fn is_zero(&self) -> bool {
        self.0.is_zero()
    }
    fn describe(&self) -> String {
        format!("sqrt({})", self.0.show())
    }
}

// ---------------------------------------------------------------------------------------------
// the rounding contract

#[derive(Clone, Copy, PartialEq, Eq, Debug)]
pub enum Mode {
    Zero,
    Away,
    Up,
    Down,
    HalfEven,
    HalfAway,
}
pub const MODES: [Mode; 6] = [Mode::Zero, Mode::Away, Mode::Up, Mode::Down, Mode::HalfEven, Mode::HalfAway];
impl Mode {
    pub fn is_half(self) -> bool {
        matches!(self, Mode::HalfEven | Mode::HalfAway)
    }
    pub fn name(self) -> &'static str {
        match self {
            Mode::Zero => "Zero",
            Mode::Away => "Away",
            Mode::Up => "Up",
            Mode::Down => "Down",
            Mode::HalfEven => "HalfEven",
            Mode::HalfAway => "HalfAway",
        }
    }
}

#[derive(Clone, Copy, PartialEq, Eq, Debug)]
pub enum Flag {
    Exact,
    Inexact(Rounding),
}

/// A float result read from dashu: value = sig * base^exp
#[derive(Clone, Debug)]
pub struct FVal {
    pub sig: BigInt,
    pub exp: i64,
    pub base: u32,
}
impl FVal {
    pub fn rat(&self) -> Rat {
        Rat::scaled(&self.sig, self.base, self.exp)
    }
    pub fn digits(&self) -> usize {
        // significant digits: trailing zero digits do not count
        let mut s = self.sig.abs();
        if s.is_zero() {
            return 0;
        }
        let b = BigInt::from(self.base);
        while (&s % &b).is_zero() {
            s /= &b;
        }
        digits_b(&s, self.base)
    }
    pub fn show(&self) -> String {
        format!("{}*{}^{}", self.sig, self.base, self.exp)
    }
}

pub fn fval<const B: Word>(r: &Repr<B>) -> FVal {
    FVal { sig: i_to_ref(r.significand()), exp: r.exponent() as i64, base: B as u32 }
}

/// Judge (result, flag) against the exact value under the C03/C08/C10 rounding contract.
/// Ok(class) or Err((kind, explanation)).
pub fn judge(x: &dyn ExactReal, r: &FVal, flag: Flag, p: usize, mode: Mode) -> Result<&'static str, (&'static str, String)> {
    let rv = r.rat();
    let c = x.cmp_rat(&rv); // x ? r
    if p != 0 && r.digits() > p + 1 {
        return Err(("too-many-digits", format!("result {} has {} significant digits, precision {}", r.show(), r.digits(), p)));
    }
    if c == Ordering::Equal {
        return match flag {
            Flag::Exact => Ok("exact"),
            Flag::Inexact(_) => Err(("flag-inexact-but-exact", format!("result {} equals the exact value but is flagged {:?}", r.show(), flag))),
        };
    }
    // r != x
    let adj = match flag {
        Flag::Exact => return Err(("flag-exact-but-inexact", format!("result {} flagged Exact, exact value {} differs", r.show(), x.describe()))),
        Flag::Inexact(a) => a,
    };
    if p == 0 {
        return Err(("inexact-at-unlimited-precision", format!("result {} differs from {} at precision 0", r.show(), x.describe())));
    }
    if x.is_zero() {
        return Err(("nonzero-for-zero", format!("exact value is 0, result {}", r.show())));
    }
    let e = x.floor_log(r.base);
    let ulp = Rat::scaled(&BigInt::one(), r.base, e - p as i64 + 1);
    let bound = if mode.is_half() { ulp.half() } else { ulp.clone() };
    // |r - x| < bound  (<= for half modes)
    let within = if c == Ordering::Greater {
        // x > r : need x < r + bound
        let o = x.cmp_rat(&rv.add(&bound));
        o == Ordering::Less || (mode.is_half() && o == Ordering::Equal)
    } else {
        let o = x.cmp_rat(&rv.sub(&bound));
        o == Ordering::Greater || (mode.is_half() && o == Ordering::Equal)
    };
    if !within {
        return Err((if mode.is_half() { "error>half-ulp" } else { "error>=1ulp" }, format!("result {} vs exact {} (ulp = {}^{})", r.show(), x.describe(), r.base, e - p as i64 + 1)));
    }
    // side prescribed by the mode
    let x_pos = x.cmp_rat(&Rat::zero()) == Ordering::Greater;
    let r_above = c == Ordering::Less; // r > x
    let side_ok = match mode {
        Mode::Up => r_above,
        Mode::Down => !r_above,
        Mode::Zero => r_above != x_pos,
        Mode::Away => r_above == x_pos,
        _ => true,
    };
    if !side_ok {
        return Err(("wrong-side", format!("result {} lies {} the exact value {} in mode {}", r.show(), if r_above { "above" } else { "below" }, x.describe(), mode.name())));
    }
    match adj {
        Rounding::AddOne if !r_above => Err(("flag-addone-but-below", format!("flag AddOne but result {} < exact {}", r.show(), x.describe()))),
        Rounding::SubOne if r_above => Err(("flag-subone-but-above", format!("flag SubOne but result {} > exact {}", r.show(), x.describe()))),
        Rounding::AddOne => Ok("inexact-addone"),
        Rounding::SubOne => Ok("inexact-subone"),
        Rounding::NoOp => Ok("inexact-noop"),
    }
}

/// is x = s * base^e with |s| < base^p ?
pub fn representable(x: &Rat, base: u32, p: usize) -> bool {
    if x.is_zero() {
        return true;
    }
    let e = x.floor_log(base);
    x.div(&Rat::scaled(&BigInt::one(), base, e - p as i64 + 1)).is_int()
}

// ---------------------------------------------------------------------------------------------
// float universes

/// all distinct finite values s * base^e with |s| < base^P (s normalised: no trailing zero digit)
/// and e in [-E, E]; zero once; ordered by (digits, |s|, e, sign)
pub fn f_universe(base: u32, p: u32, e: i64) -> Vec<(BigInt, i64)> {
    let lim = (base as i64).pow(p);
    let mut v = vec![(BigInt::zero(), 0i64)];
    for s in 1..lim {
        if s % base as i64 == 0 {
            continue;
        }
        for ex in -e..=e {
            v.push((BigInt::from(s), ex));
            v.push((BigInt::from(-s), ex));
        }
    }
    v
}

pub fn mk_repr<const B: Word>(s: &BigInt, e: i64) -> Repr<B> {
    Repr::<B>::new(ref_to_i(s), e as isize)
}

pub fn flag_of<T>(a: &dashu_base::Approximation<T, Rounding>) -> Flag {
    match a {
        dashu_base::Approximation::Exact(_) => Flag::Exact,
        dashu_base::Approximation::Inexact(_, r) => Flag::Inexact(*r),
    }
}

pub trait ModeTag: Round + Send + Sync + 'static {
    const MODE: Mode;
}
impl ModeTag for mode::Zero {
    const MODE: Mode = Mode::Zero;
}
impl ModeTag for mode::Away {
    const MODE: Mode = Mode::Away;
}
impl ModeTag for mode::Up {
    const MODE: Mode = Mode::Up;
}
impl ModeTag for mode::Down {
    const MODE: Mode = Mode::Down;
}
impl ModeTag for mode::HalfEven {
    const MODE: Mode = Mode::HalfEven;
}
impl ModeTag for mode::HalfAway {
    const MODE: Mode = Mode::HalfAway;
}

/// call `$f::<R, B>($($args),*)` for all six modes
#[macro_export]
macro_rules! for_all_modes {
    ($f:ident, $b:expr, ($($args:expr),*)) => {{
        $f::<dashu_float::round::mode::Zero, { $b }>($($args),*);
        $f::<dashu_float::round::mode::Away, { $b }>($($args),*);
        $f::<dashu_float::round::mode::Up, { $b }>($($args),*);
        $f::<dashu_float::round::mode::Down, { $b }>($($args),*);
        $f::<dashu_float::round::mode::HalfEven, { $b }>($($args),*);
        $f::<dashu_float::round::mode::HalfAway, { $b }>($($args),*);
    }};
}

pub fn fbig_of<R: Round, const B: Word>(s: &BigInt, e: i64, prec: usize) -> FBig<R, B> {
    FBig::from_repr(mk_repr::<B>(s, e), Context::<R>::new(prec))
}
