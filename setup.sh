#!/bin/bash
# builds the harness (default `mon` configuration) offline from files on disk
set -e
cd "$(dirname "$0")/harness"
export CARGO_NET_OFFLINE=true
cp /repo/Cargo.lock Cargo.lock
cargo build --release --offline
# secondary configuration used by C16/C19 (release profile: no debug assertions, no overflow checks)
cargo build --profile rel --features lite --offline
# C19: the case evaluator in its four configurations
cargo build --release --offline -p dvx
cargo build --profile rel --offline -p dvx
RUSTFLAGS='--cfg dashu_verif --cfg force_bits="32"' CARGO_TARGET_DIR="$PWD/target-w32" cargo build --release --offline -p dvx
CARGO_TARGET_DIR="$PWD/target-nostd" cargo build --release --offline -p dvx --no-default-features
# C17: pre-build the Miri replayer (its sysroot and the dashu-int build for Miri)
MIRIFLAGS="-Zmiri-disable-isolation" CARGO_TARGET_DIR="$PWD/target-miri" cargo +nightly miri run --offline -q -p dvm -- /dev/null || echo "note: Miri pre-build failed (C17 will report it as a machinery problem)"
