//! C20 — not built yet.
use crate::core::Ctx;

pub fn run(ctx: &mut Ctx) {
    ctx.machinery("check C20 is not built yet");
}
