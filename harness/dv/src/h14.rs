//! Reference side of C14: exact values of every kind (rationals, astronomically scaled floats,
//! infinities, NaN), their total order, magnitudes, value classes and the num-order hash formula.
//! Nothing here calls dashu.

use crate::fref::*;
use num_bigint::{BigInt, Sign as NSign};
use num_integer::Integer;
use num_traits::{One, Pow, Signed, ToPrimitive, Zero};
use std::cmp::Ordering;
use std::sync::atomic::{AtomicU64, Ordering as AO};

/// values with |exponent| * log2(base) above this are kept symbolic
pub const MATERIALISE_BITS: f64 = 40_000.0;
/// fixed point (2^-FX) of the log2 enclosures
pub const FX: u32 = 40;

/// pairs the reference could not decide (must stay 0: such pairs are far apart by construction)
pub static UNDECIDED: AtomicU64 = AtomicU64::new(0);

/// s * fam^e, s > 0 not divisible by fam, fam = 2 for every power-of-two base
#[derive(Clone, Debug, PartialEq, Eq)]
pub struct Astro {
    pub neg: bool,
    pub s: BigInt,
    pub fam: u32,
    pub e: i64,
}

#[derive(Clone, Debug, PartialEq, Eq)]
pub enum Val {
    Nan,
    NegInf,
    PosInf,
    Fin(Rat),
    Astro(Astro),
}

/// exact value of s * base^e
pub fn val_scaled(s: &BigInt, base: u32, e: i64) -> Val {
    val_scaled_thr(s, base, e, MATERIALISE_BITS)
}

/// same with an explicit materialisation threshold (the self-check forces the symbolic form)
pub fn val_scaled_thr(s: &BigInt, base: u32, e: i64, thr: f64) -> Val {
    if s.is_zero() {
        return Val::Fin(Rat::zero());
    }
    if (e.unsigned_abs() as f64) * (base as f64).log2() <= thr {
        return Val::Fin(Rat::scaled(s, base, e));
    }
    let neg = s.is_negative();
    let mut s = s.abs();
    let (fam, mut e) = if base.is_power_of_two() { (2u32, e * base.trailing_zeros() as i64) } else { (base, e) };
    if fam == 2 {
        let tz = s.trailing_zeros().unwrap_or(0);
        return Val::Astro(Astro { neg, s: s >> tz, fam, e: e + tz as i64 });
    }
    let f = BigInt::from(fam);
    loop {
        let (q, r) = s.div_rem(&f);
        if !r.is_zero() {
            break;
        }
        s = q;
        e += 1;
    }
    Val::Astro(Astro { neg, s, fam, e })
}

pub fn val_int(n: &BigInt) -> Val {
    if n.bits() as f64 > MATERIALISE_BITS {
        // astronomically large integer: symbolic, odd part * 2^(trailing zeros)
        return val_scaled_thr(n, 2, 0, -1.0);
    }
    Val::Fin(Rat::int(n.clone()))
}

pub fn val_f64(x: f64) -> Val {
    let bits = x.to_bits();
    let neg = bits >> 63 != 0;
    let ex = ((bits >> 52) & 0x7ff) as i64;
    let man = bits & ((1u64 << 52) - 1);
    if ex == 0x7ff {
        return if man != 0 {
            Val::Nan
        } else if neg {
            Val::NegInf
        } else {
            Val::PosInf
        };
    }
    let (m, e) = if ex == 0 { (man, -1074) } else { (man | (1u64 << 52), ex - 1075) };
    let m = if neg { -BigInt::from(m) } else { BigInt::from(m) };
    Val::Fin(Rat::scaled(&m, 2, e))
}

pub fn val_f32(x: f32) -> Val {
    let bits = x.to_bits();
    let neg = bits >> 31 != 0;
    let ex = ((bits >> 23) & 0xff) as i64;
    let man = bits & ((1u32 << 23) - 1);
    if ex == 0xff {
        return if man != 0 {
            Val::Nan
        } else if neg {
            Val::NegInf
        } else {
            Val::PosInf
        };
    }
    let (m, e) = if ex == 0 { (man, -149) } else { (man | (1u32 << 23), ex - 150) };
    let m = if neg { -BigInt::from(m) } else { BigInt::from(m) };
    Val::Fin(Rat::scaled(&m, 2, e))
}

/// (integer mantissa, binary exponent) of a finite f64
pub fn decode_f64(x: f64) -> (BigInt, i64) {
    match val_f64(x) {
        Val::Fin(_) => {
            let bits = x.to_bits();
            let ex = ((bits >> 52) & 0x7ff) as i64;
            let man = bits & ((1u64 << 52) - 1);
            let (m, e) = if ex == 0 { (man, -1074) } else { (man | (1u64 << 52), ex - 1075) };
            (if bits >> 63 != 0 { -BigInt::from(m) } else { BigInt::from(m) }, e)
        }
        _ => panic!("decode_f64 of a non-finite value"),
    }
}

impl Val {
    pub fn sgn(&self) -> i32 {
        match self {
            Val::Nan => panic!("sign of NaN"),
            Val::NegInf => -1,
            Val::PosInf => 1,
            Val::Fin(r) => r.sgn(),
            Val::Astro(a) => {
                if a.neg {
                    -1
                } else {
                    1
                }
            }
        }
    }
    pub fn abs(&self) -> Val {
        match self {
            Val::Nan => Val::Nan,
            Val::NegInf | Val::PosInf => Val::PosInf,
            Val::Fin(r) => Val::Fin(r.abs()),
            Val::Astro(a) => Val::Astro(Astro { neg: false, ..a.clone() }),
        }
    }
    pub fn is_nan(&self) -> bool {
        matches!(self, Val::Nan)
    }
    pub fn is_zero(&self) -> bool {
        matches!(self, Val::Fin(r) if r.is_zero())
    }
    pub fn is_finite_nonzero(&self) -> bool {
        match self {
            Val::Fin(r) => !r.is_zero(),
            Val::Astro(_) => true,
            _ => false,
        }
    }
    /// enclosure [lo, hi] of log2 |v| in units of 2^-FX; v finite and non-zero
    pub fn l2_interval(&self) -> (i128, i128) {
        match self {
            Val::Fin(r) => {
                let d = r.n.bits() as i128 - r.d.bits() as i128;
                ((d - 1) << FX, (d + 1) << FX)
            }
            Val::Astro(a) => {
                let b = a.s.bits() as i128;
                let e = a.e as i128;
                if a.fam == 2 {
                    ((b - 1 + e) << FX, (b + e) << FX)
                } else {
                    let (llo, lhi) = log2_fam(a.fam);
                    if e >= 0 {
                        (((b - 1) << FX) + e * llo, (b << FX) + e * lhi)
                    } else {
                        (((b - 1) << FX) + e * lhi, (b << FX) + e * llo)
                    }
                }
            }
            _ => panic!("l2_interval of a non-finite value"),
        }
    }
    /// floor of the lower log2 bound (within 2 of floor(log2 |v|))
    pub fn l2_floor(&self) -> i64 {
        (self.l2_interval().0 >> FX) as i64
    }
    /// coarse deterministic class used in signatures and histograms
    pub fn class(&self) -> &'static str {
        match self {
            Val::Nan => "nan",
            Val::NegInf => "-inf",
            Val::PosInf => "+inf",
            Val::Fin(r) if r.is_zero() => "0",
            Val::Fin(r) => {
                let a = r.abs();
                let neg = r.is_neg();
                if a.n < a.d {
                    if neg {
                        "-sub1"
                    } else {
                        "+sub1"
                    }
                } else if a.n.bits() - a.d.bits() < 64 {
                    if neg {
                        "-small"
                    } else {
                        "+small"
                    }
                } else if neg {
                    "-large"
                } else {
                    "+large"
                }
            }
            Val::Astro(a) => match (a.neg, a.e >= 0) {
                (false, true) => "+astro",
                (true, true) => "-astro",
                (false, false) => "+astroinv",
                (true, false) => "-astroinv",
            },
        }
    }
    pub fn show(&self) -> String {
        match self {
            Val::Nan => "NaN".into(),
            Val::NegInf => "-inf".into(),
            Val::PosInf => "+inf".into(),
            Val::Fin(r) => crate::core::trunc(&r.show(), 120),
            Val::Astro(a) => format!("{}{}*{}^{}", if a.neg { "-" } else { "" }, a.s, a.fam, a.e),
        }
    }
}

/// enclosure of log2(fam) * 2^FX for a base that is not a power of two: bit-by-bit by repeated
/// squaring of x in [1,2) with outward-rounded 200-bit fixed point
pub fn log2_fam(fam: u32) -> (i128, i128) {
    assert!(fam >= 3 && !fam.is_power_of_two());
    const F: u32 = 200;
    let k = 31 - fam.leading_zeros(); // floor(log2 fam)
    let one = BigInt::one() << F;
    let two = BigInt::one() << (F + 1);
    let mut lo = BigInt::from(fam) << (F - k);
    let mut hi = lo.clone();
    let mut bits: i128 = 0;
    for _ in 0..FX {
        lo = (&lo * &lo) >> F;
        hi = ((&hi * &hi) + &one - 1) >> F;
        let (bl, bh) = (lo >= two, hi >= two);
        assert!(bl == bh, "log2 enclosure lost precision");
        bits <<= 1;
        if bl {
            bits |= 1;
            lo >>= 1;
            hi = (hi + 1) >> 1;
        }
    }
    let l = ((k as i128) << FX) + bits;
    (l, l + 1)
}

/// |a| ? |b| for finite non-zero values
fn mag_cmp(a: &Val, b: &Val) -> Ordering {
    match (a, b) {
        (Val::Fin(x), Val::Fin(y)) => (x.n.magnitude() * y.d.magnitude()).cmp(&(y.n.magnitude() * x.d.magnitude())),
        (Val::Astro(x), Val::Astro(y)) if x.fam == y.fam => {
            // s1 * f^e1 ? s2 * f^e2
            let d = x.e - y.e;
            if d >= 0 {
                if d as u64 > y.s.bits() {
                    Ordering::Greater
                } else {
                    (&x.s * Pow::pow(BigInt::from(x.fam), d as u64)).cmp(&y.s)
                }
            } else if (-d) as u64 > x.s.bits() {
                Ordering::Less
            } else {
                x.s.cmp(&(&y.s * Pow::pow(BigInt::from(x.fam), (-d) as u64)))
            }
        }
        _ => {
            let (alo, ahi) = a.l2_interval();
            let (blo, bhi) = b.l2_interval();
            if alo > bhi {
                Ordering::Greater
            } else if ahi < blo {
                Ordering::Less
            } else {
                UNDECIDED.fetch_add(1, AO::Relaxed);
                Ordering::Equal
            }
        }
    }
}

/// order of the exact values (neither is NaN)
pub fn vcmp(a: &Val, b: &Val) -> Ordering {
    let (sa, sb) = (a.sgn(), b.sgn());
    let ra = |v: &Val| match v {
        Val::NegInf => -2,
        Val::PosInf => 2,
        _ => v.sgn(),
    };
    let (ka, kb) = (ra(a), ra(b));
    if ka != kb || ka.abs() == 2 || ka == 0 {
        return ka.cmp(&kb);
    }
    debug_assert!(sa == sb && sa != 0);
    let m = mag_cmp(a, b);
    if sa < 0 {
        m.reverse()
    } else {
        m
    }
}

pub fn m127() -> BigInt {
    (BigInt::one() << 127u32) - 1
}

/// the i128 that num-order's documented formula hashes for this value:
/// sgn * (|n| * |d|^-1 mod 2^127-1); None where the formula has no value (d = 0 mod M)
pub fn ref_hash(v: &Val) -> Option<i128> {
    let m = m127();
    let inv = |x: &BigInt| -> Option<BigInt> {
        let x = x.mod_floor(&m);
        if x.is_zero() {
            None
        } else {
            Some(x.modpow(&(&m - 2), &m))
        }
    };
    let (neg, h) = match v {
        Val::Nan => return Some(-1),
        Val::NegInf | Val::PosInf => return Some(0),
        Val::Fin(r) => (r.is_neg(), (r.n.abs().mod_floor(&m) * inv(&r.d)?).mod_floor(&m)),
        Val::Astro(a) => {
            let p = BigInt::from(a.fam).modpow(&BigInt::from(a.e.unsigned_abs()), &m);
            let p = if a.e < 0 { inv(&p)? } else { p };
            (a.neg, (a.s.mod_floor(&m) * p).mod_floor(&m))
        }
    };
    let h = h.to_i128().unwrap();
    Some(if neg { -h } else { h })
}

/// ranks of a set of values and of their magnitudes in one common total order
pub struct Tab {
    pub vals: Vec<Val>,
    pub rank: Vec<u32>,
    pub arank: Vec<u32>,
    pub nan: Vec<bool>,
    pub cls: Vec<&'static str>,
    /// floor(log2 |v|) (approximately), i64::MIN for zero / non-finite
    pub l2: Vec<i64>,
    pub distinct: usize,
}

pub const NAN_RANK: u32 = u32::MAX;

impl Tab {
    pub fn build(vals: Vec<Val>) -> Tab {
        let n = vals.len();
        let mut all: Vec<Val> = vals.clone();
        all.extend(vals.iter().map(|v| v.abs()));
        let mut idx: Vec<usize> = (0..2 * n).filter(|&i| !all[i].is_nan()).collect();
        idx.sort_by(|&i, &j| vcmp(&all[i], &all[j]));
        let mut r = vec![NAN_RANK; 2 * n];
        let mut cur = 0u32;
        for k in 0..idx.len() {
            if k > 0 && vcmp(&all[idx[k - 1]], &all[idx[k]]) != Ordering::Equal {
                cur += 1;
            }
            r[idx[k]] = cur;
        }
        let nan: Vec<bool> = vals.iter().map(|v| v.is_nan()).collect();
        let cls = vals.iter().map(|v| v.class()).collect();
        let l2 = vals.iter().map(|v| if v.is_finite_nonzero() { v.l2_floor() } else { i64::MIN }).collect();
        let distinct = crate::core::dedup_count(r[..n].iter().filter(|&&x| x != NAN_RANK));
        Tab { rank: r[..n].to_vec(), arank: r[n..].to_vec(), nan, cls, l2, vals, distinct }
    }
    pub fn want(&self, a: u32, b: u32) -> Option<Ordering> {
        let (a, b) = (a as usize, b as usize);
        if self.nan[a] || self.nan[b] {
            None
        } else {
            Some(self.rank[a].cmp(&self.rank[b]))
        }
    }
    pub fn want_abs(&self, a: u32, b: u32) -> Option<Ordering> {
        let (a, b) = (a as usize, b as usize);
        if self.nan[a] || self.nan[b] {
            None
        } else {
            Some(self.arank[a].cmp(&self.arank[b]))
        }
    }
    /// both values so large/small that deciding a close pair means materialising > 2^20-bit
    /// numbers, and the pair is close (log2 within 2^-16 relative): dashu's f32 log2 filter
    /// (24-bit) cannot separate such a pair
    pub fn near_astronomic(&self, a: u32, b: u32) -> bool {
        let (la, lb) = (self.l2[a as usize], self.l2[b as usize]);
        if la == i64::MIN || lb == i64::MIN {
            return false;
        }
        let m = la.abs().max(lb.abs());
        m >= (1 << 19) && (la - lb).abs() <= (m >> 16) + 2
    }
    pub fn max_l2(&self, a: u32, b: u32) -> i64 {
        let f = |x: i64| if x == i64::MIN { 0 } else { x.abs() };
        f(self.l2[a as usize]).max(f(self.l2[b as usize]))
    }
    pub fn near(&self, a: u32, b: u32) -> bool {
        let (la, lb) = (self.l2[a as usize], self.l2[b as usize]);
        la != i64::MIN && lb != i64::MIN && (la - lb).abs() <= 2
    }
}

pub fn show_int(x: &BigInt) -> String {
    if x.bits() <= 70 {
        format!("{}", x)
    } else {
        crate::uni::hex(x)
    }
}

#[allow(dead_code)]
pub fn sign_of(x: &BigInt) -> i32 {
    match x.sign() {
        NSign::Minus => -1,
        NSign::NoSign => 0,
        NSign::Plus => 1,
    }
}
