#!/usr/bin/env python3
"""fill_meta.py <round> <ran-text> <log>... : reads `try` result lines ("<seed> <check> exit=<c> violations=<n>  <sig>;<sig>;...")
and writes detected_by / missed_by / round / ran into seeded/<seed>/meta.json (what = first heading of the README excerpt if absent)."""
import json, re, sys, os
V = os.path.dirname(os.path.dirname(os.path.abspath(__file__)))
rnd, ran = int(sys.argv[1]), sys.argv[2]
res = {}
for f in sys.argv[3:]:
    for l in open(f):
        m = re.match(r'^(C\d\d-[a-z]) (C\d\d) exit=(\d) violations=(\d+)\s*(.*)$', l.strip())
        if m:
            res.setdefault(m.group(1), {})[m.group(2)] = (int(m.group(3)), int(m.group(4)), [s.rstrip(';') for s in re.split(r';(?=C\d\d\|)', m.group(5)) if s.strip(';')][:2])
for seed, checks in sorted(res.items()):
    p = f'{V}/seeded/{seed}/meta.json'
    if not os.path.exists(p):
        print('no meta for', seed); continue
    m = json.load(open(p))
    det = [f"{c} ({'; '.join(s.split('|', 1)[1] if '|' in s else s for s in sigs)})" for c, (code, n, sigs) in sorted(checks.items()) if code == 1 and n > 0]
    miss = [c for c, (code, n, sigs) in sorted(checks.items()) if code == 0]
    bad = [c for c, (code, n, sigs) in checks.items() if code == 2]
    m['detected_by'] = '; '.join(det) if det else 'NOT DETECTED'
    if miss:
        m['also_run_without_report'] = miss
    if bad:
        m['machinery_errors'] = bad
    m['round'] = rnd
    m['ran'] = ran
    json.dump(m, open(p, 'w'), indent=1)
    print(seed, '->', m['detected_by'][:150], '| quiet:', miss)
