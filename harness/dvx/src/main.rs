//! dvx <sweep> <quick|thorough> <lo> <hi> : prints "<index>\t<result line>" for every case of the
//! shard.  Built in several configurations (see /verif/check); C19 compares the outputs.
mod cases;

fn main() {
    std::panic::set_hook(Box::new(|_| {}));
    let a: Vec<String> = std::env::args().collect();
    if a.len() == 2 && a[1] == "config" {
        println!("word_bits={} debug_assertions={} std={}", dashu_int::Word::BITS, cfg!(debug_assertions), cfg!(feature = "dstd"));
        return;
    }
    if a.len() != 5 {
        eprintln!("usage: dvx <sweep> <quick|thorough> <lo> <hi> | dvx config");
        std::process::exit(2);
    }
    let thorough = a[2] == "thorough";
    let (lo, hi): (u64, u64) = (a[3].parse().unwrap(), a[4].parse().unwrap());
    let n = cases::count(&a[1], thorough);
    use std::io::Write;
    let so = std::io::stdout();
    let mut so = std::io::BufWriter::new(so.lock());
    for i in lo..hi.min(n) {
        let _ = writeln!(so, "{}\t{}", i, cases::eval(&a[1], thorough, i));
    }
}
