#!/usr/bin/env python3
"""Regenerates the table of DESIGN.md §10.1 from /repo's `fix:` commits and the `fixed` lines of known_findings.jsonl."""
import json, subprocess, re, os
V = os.path.dirname(os.path.dirname(os.path.abspath(__file__)))
fx = {}
for l in open(V + '/known_findings.jsonl'):
    l = l.strip()
    if not l or l.startswith('#'):
        continue
    d = json.loads(l)
    if d['status'] == 'fixed':
        fx.setdefault(d['commit'][:7], set()).add(d['property'])
rows = ['| commit | found by | repair (first line of the commit message) |', '|---|---|---|']
n = 0
for l in subprocess.check_output(['git', '-C', '/repo', 'log', '--reverse', '--format=%h %s']).decode().splitlines():
    h, s = l.split(' ', 1)
    if s.startswith('fix:'):
        n += 1
        rows.append(f"| `{h[:7]}` | {', '.join(sorted(fx.get(h[:7], ['?'])))} | {s[4:].strip()} |")
doc = open(V + '/DESIGN.md').read()
a = doc.index('| commit | found by | repair')
b = doc.index('\n\n', a)
doc = doc[:a] + '\n'.join(rows) + doc[b:]
doc = re.sub(r'The checks found the defects of §7 and many more\. \d+ were repaired', f'The checks found the defects of §7 and many more. {n} were repaired', doc)
open(V + '/DESIGN.md', 'w').write(doc)
print(n, 'fix commits')
