#!/bin/bash
# try_seed.sh <seed-id> <check> [check...] : apply a seeded change to /repo, run the quick checks, undo it.
S=$1; shift
cd /repo || exit 2
if [ -n "$(git status --porcelain --untracked-files=no)" ]; then echo "/repo has uncommitted changes"; exit 2; fi
git apply /verif/seeded/$S/patch.diff || { echo "$S: patch does not apply"; exit 2; }
for c in "$@"; do
  out=$(cd /verif && ./check $c --tier ${TIER:-quick} 2>&1); code=$?
  nv=$(echo "$out" | grep -c "^VIOLATION")
  first=$(echo "$out" | grep -A1 "^VIOLATION" | grep signature | head -3 | sed 's/  signature: //' | tr '\n' ';')
  echo "$S $c exit=$code violations=$nv  $first"
  [ $code = 2 ] && echo "$out" | grep -E "MACHINERY|error" | head -5
done
git -C /repo checkout -- .
# the runs above describe the seeded tree: put the committed evidence back and drop their replay files
git -C /verif checkout -q -- evidence replays 2>/dev/null; git -C /verif clean -fdq replays 2>/dev/null
