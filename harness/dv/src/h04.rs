//! Reference models of C04: exact fractions over num_bigint (`Q`) and a checked-i128 fast path
//! (`R`) used by the history explorer.  Nothing here touches dashu.

use crate::uni::hex;
use num_bigint::BigInt;
use num_integer::Integer;
use num_traits::{One, Signed, ToPrimitive, Zero};

pub fn num(x: &BigInt) -> String {
    if x.bits() <= 63 {
        x.to_string()
    } else {
        hex(x)
    }
}

/// exact fraction, always normalised: d > 0, gcd(n, d) = 1, zero = 0/1
#[derive(Clone, PartialEq, Eq, Debug)]
pub struct Q {
    pub n: BigInt,
    pub d: BigInt,
}

impl Q {
    pub fn new(n: BigInt, d: BigInt) -> Q {
        assert!(!d.is_zero(), "reference fraction with zero denominator");
        let g = n.gcd(&d); // non-negative, gcd(0, d) = |d|
        let (mut n, mut d) = if g.is_one() { (n, d) } else { (&n / &g, &d / &g) };
        if d.is_negative() {
            n = -n;
            d = -d;
        }
        Q { n, d }
    }
    pub fn int(n: BigInt) -> Q {
        Q { n, d: BigInt::one() }
    }
    pub fn small(n: i64, d: i64) -> Q {
        Q::new(BigInt::from(n), BigInt::from(d))
    }
    pub fn is_zero(&self) -> bool {
        self.n.is_zero()
    }
    pub fn is_int(&self) -> bool {
        self.d.is_one()
    }
    pub fn trivial(&self) -> bool {
        self.d.is_one() && self.n.abs() <= BigInt::one()
    }
    pub fn show(&self) -> String {
        if self.d.is_one() {
            num(&self.n)
        } else {
            format!("{}/{}", num(&self.n), num(&self.d))
        }
    }
    pub fn add(&self, o: &Q) -> Q {
        Q::new(&self.n * &o.d + &o.n * &self.d, &self.d * &o.d)
    }
    pub fn sub(&self, o: &Q) -> Q {
        Q::new(&self.n * &o.d - &o.n * &self.d, &self.d * &o.d)
    }
    pub fn mul(&self, o: &Q) -> Q {
        Q::new(&self.n * &o.n, &self.d * &o.d)
    }
    pub fn div(&self, o: &Q) -> Option<Q> {
        if o.n.is_zero() {
            None
        } else {
            Some(Q::new(&self.n * &o.d, &self.d * &o.n))
        }
    }
    pub fn neg(&self) -> Q {
        Q { n: -&self.n, d: self.d.clone() }
    }
    pub fn abs(&self) -> Q {
        Q { n: self.n.abs(), d: self.d.clone() }
    }
    pub fn inv(&self) -> Option<Q> {
        if self.n.is_zero() {
            None
        } else {
            Some(Q::new(self.d.clone(), self.n.clone()))
        }
    }
    pub fn pow(&self, e: u32) -> Q {
        // by repeated multiplication (definition), not by a power routine
        let mut r = Q::small(1, 1);
        for _ in 0..e {
            r = r.mul(self);
        }
        r
    }
    pub fn floor(&self) -> BigInt {
        self.n.div_floor(&self.d)
    }
    pub fn ceil(&self) -> BigInt {
        -((-&self.n).div_floor(&self.d))
    }
    pub fn trunc(&self) -> BigInt {
        &self.n / &self.d // BigInt division truncates
    }
    /// nearest integer, ties away from zero
    pub fn round_half_away(&self) -> BigInt {
        let two = BigInt::from(2);
        let t: BigInt = (self.n.abs() * &two + &self.d).div_floor(&(&self.d * &two));
        if self.n.is_negative() {
            -t
        } else {
            t
        }
    }
    /// documented `%`: r = a - round_half_away(a / b) * b
    pub fn rem(&self, b: &Q) -> Option<Q> {
        let t = self.div(b)?.round_half_away();
        Some(self.sub(&Q::int(t).mul(b)))
    }
    /// Euclidean quotient: the integer q with 0 <= a - q*b < |b|
    pub fn div_euclid(&self, b: &Q) -> Option<BigInt> {
        let q = self.div(b)?;
        Some(if b.n.is_positive() { q.floor() } else { q.ceil() })
    }
    pub fn rem_euclid(&self, b: &Q) -> Option<Q> {
        let q = self.div_euclid(b)?;
        Some(self.sub(&Q::int(q).mul(b)))
    }
    pub fn lt(&self, o: &Q) -> bool {
        &self.n * &o.d < &o.n * &self.d
    }
    pub fn to_r(&self, cap_bits: u64) -> Option<R> {
        if self.n.bits() > cap_bits || self.d.bits() > cap_bits {
            return None;
        }
        Some((self.n.to_i128()?, self.d.to_i128()?))
    }
    pub fn from_r(r: R) -> Q {
        Q { n: BigInt::from(r.0), d: BigInt::from(r.1) }
    }
}

/// plain Euclid, used to cross-check num_integer's gcd
pub fn euclid_gcd(a: &BigInt, b: &BigInt) -> BigInt {
    let (mut a, mut b) = (a.abs(), b.abs());
    while !b.is_zero() {
        let t = &a % &b;
        a = b;
        b = t;
    }
    a
}

// ---------------------------------------------------------------------------------------------
// i128 fast path: (n, d), d > 0, reduced.  `None` = some intermediate left i128 (caller falls back
// to `Q`).

pub type R = (i128, i128);

fn gcd_u128(mut a: u128, mut b: u128) -> u128 {
    while b != 0 {
        if a <= u64::MAX as u128 && b <= u64::MAX as u128 {
            let (mut x, mut y) = (a as u64, b as u64);
            while y != 0 {
                let t = x % y;
                x = y;
                y = t;
            }
            return x as u128;
        }
        let t = a % b;
        a = b;
        b = t;
    }
    a
}

pub fn r_norm(n: i128, d: i128) -> Option<R> {
    if d == 0 || n == i128::MIN || d == i128::MIN {
        return None;
    }
    let g = gcd_u128(n.unsigned_abs(), d.unsigned_abs()) as i128;
    let (mut n, mut d) = (n / g, d / g);
    if d < 0 {
        n = -n;
        d = -d;
    }
    Some((n, d))
}
pub fn r_add(a: R, b: R) -> Option<R> {
    r_norm(a.0.checked_mul(b.1)?.checked_add(b.0.checked_mul(a.1)?)?, a.1.checked_mul(b.1)?)
}
pub fn r_sub(a: R, b: R) -> Option<R> {
    r_norm(a.0.checked_mul(b.1)?.checked_sub(b.0.checked_mul(a.1)?)?, a.1.checked_mul(b.1)?)
}
pub fn r_mul(a: R, b: R) -> Option<R> {
    r_norm(a.0.checked_mul(b.0)?, a.1.checked_mul(b.1)?)
}
/// b must be non-zero
pub fn r_div(a: R, b: R) -> Option<R> {
    r_norm(a.0.checked_mul(b.1)?, a.1.checked_mul(b.0)?)
}
pub fn r_floor(a: R) -> i128 {
    a.0.div_euclid(a.1)
}
pub fn r_round_half_away(a: R) -> Option<i128> {
    let t = a.0.checked_abs()?.checked_mul(2)?.checked_add(a.1)?.div_euclid(a.1.checked_mul(2)?);
    Some(if a.0 < 0 { -t } else { t })
}
pub fn r_rem(a: R, b: R) -> Option<R> {
    let t = r_round_half_away(r_div(a, b)?)?;
    r_sub(a, r_mul((t, 1), b)?)
}
pub fn r_div_euclid(a: R, b: R) -> Option<i128> {
    let q = r_div(a, b)?;
    Some(if b.0 > 0 { r_floor(q) } else { -r_floor((q.0.checked_neg()?, q.1)) })
}
