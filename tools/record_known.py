#!/usr/bin/env python3
"""record_known.py <PROP> <run-output-file> <what-prefix> : append `known` entries to known_findings.jsonl
for every VIOLATION signature in a saved run output that is not listed yet (triage helper, run by hand
after the root cause has been analysed; never run by the checks)."""
import json, sys, re
prop, out, what = sys.argv[1], sys.argv[2], sys.argv[3]
path = '/verif/known_findings.jsonl'
have = set()
for l in open(path):
    l = l.strip()
    if l and not l.startswith('#'):
        j = json.loads(l)
        if j.get('status') == 'known':
            have.add(j['signature'])
lines = open(out).read().split('\n')
n = 0
with open(path, 'a') as f:
    for i, l in enumerate(lines):
        if l.startswith('VIOLATION property=' + prop):
            sig = lines[i + 1].split('signature: ', 1)[1].strip()
            case = lines[i + 2].split('case: ', 1)[1].strip() if 'case: ' in lines[i + 2] else ''
            obs = lines[i + 3].split('observed: ', 1)[1].strip() if 'observed: ' in lines[i + 3] else ''
            if sig in have:
                continue
            have.add(sig)
            f.write(json.dumps({"status": "known", "property": prop, "signature": sig, "what": f"{what} — e.g. {case[:160]} -> {obs[:160]}"}) + "\n")
            n += 1
print("added", n)
