//! C14 — comparing numbers of different kinds through NumOrd / AbsOrd gives the order of their
//! exact real values; numerically equal numbers of different types have the same NumHash.
//!
//! Every (ordered) pair of types with a `NumOrd` or `AbsOrd` impl (inventory below, taken from the
//! three `third_party/num_order.rs` files, the `cmp.rs` cross impls and `base/src/sign.rs`) is
//! instantiated — the module does not compile if one is missing — and run over all pairs of the
//! value lists of the two types.  Reference: exact rationals over num_bigint, symbolic handling of
//! astronomically scaled floats (`h14.rs`); ranks in one common total order are precomputed.

#[path = "h14.rs"]
mod h14;

use self::h14::*;
use crate::core::{guard, Ctx, Rec};
use crate::fref::*;
use crate::uni::*;
use dashu_base::AbsOrd;
use dashu_float::round::mode;
use dashu_float::{Context, FBig, Repr};
use dashu_int::{IBig, UBig, Word};
use dashu_ratio::{RBig, Relaxed};
use num_bigint::BigInt;
use num_integer::Integer;
use num_order::{NumHash, NumOrd};
use num_traits::{NumCast, One, Pow, Signed, Zero};
use std::cmp::Ordering;
use std::collections::{BTreeMap, BTreeSet};
use std::hash::{Hash, Hasher};

const P: &str = "C14";

// ---------------------------------------------------------------------------------------------
// typed values

pub struct Item<T> {
    x: T,
    id: u32,
    how: String,
}

#[derive(Default)]
struct Builder {
    vals: Vec<Val>,
}
impl Builder {
    fn item<T>(&mut self, x: T, v: Val, how: String) -> Item<T> {
        self.vals.push(v);
        Item { x, id: (self.vals.len() - 1) as u32, how }
    }
}

fn p2(k: u32) -> BigInt {
    BigInt::one() << k
}

/// integer points: closed universe I3 (quick: atoms {0,1,2,2^32,2^63,MAX-1,MAX}), small integers, the
/// neighbourhoods of 2^24, 2^53, 2^64, 2^128, of every primitive type bound and of the f32/f64
/// range limits (largest finite value, MANTISSA_DIGITS + MAX_EXP bit-length cut-off)
fn int_points(quick: bool, seed: u64) -> Vec<BigInt> {
    let mut s: BTreeSet<BigInt> = BTreeSet::new();
    let mags = if quick { closed_mags(&[0, 1, 2, 1 << 32, 1 << 63, u64::MAX - 1, u64::MAX], 3) } else { i3_mags() };
    s.extend(signed(&mags));
    for n in -20i64..=20 {
        s.insert(BigInt::from(n));
    }
    let mut around = |c: BigInt| {
        for d in -1i32..=1 {
            s.insert(&c + d);
            s.insert(-(&c + d));
        }
    };
    for k in [24u32, 53, 64, 128] {
        around(p2(k));
    }
    for bits in [7u32, 8, 15, 16, 31, 32, 63, 64, 127, 128] {
        around(p2(bits));
    }
    for (mant, maxexp) in [(24u32, 128u32), (53, 1024)] {
        around(p2(maxexp) - p2(maxexp - mant)); // largest finite float
        around(p2(maxexp));
        around(p2(maxexp - 1));
        around(p2(mant + maxexp - 1));
        around(p2(mant + maxexp));
        around(p2(mant + maxexp + 1));
    }
    let x = BigInt::from(shape(3, "lcgSeed", seed));
    s.insert(-x.clone());
    s.insert(x);
    // astronomically large integers (equal / adjacent to floats with exponent 10^6)
    for x in [p2(1_000_000), p2(1_000_000) + 1, p2(1_000_000) - 1, p2(4_000_000)] {
        s.insert(-x.clone());
        s.insert(x);
    }
    s.into_iter().collect()
}

fn next_f64(x: f64, up: bool) -> f64 {
    // neighbour of a finite value (towards +inf if up)
    if x == 0.0 {
        let t = f64::from_bits(1);
        return if up { t } else { -t };
    }
    let b = x.to_bits();
    let away = (x > 0.0) == up;
    f64::from_bits(if away { b + 1 } else { b - 1 })
}
fn next_f32(x: f32, up: bool) -> f32 {
    if x == 0.0 {
        let t = f32::from_bits(1);
        return if up { t } else { -t };
    }
    let b = x.to_bits();
    let away = (x > 0.0) == up;
    f32::from_bits(if away { b + 1 } else { b - 1 })
}

fn f64_points(small: &[(BigInt, i64)]) -> Vec<f64> {
    let mut v: Vec<f64> = vec![0.0, -0.0, f64::INFINITY, f64::NEG_INFINITY, f64::NAN];
    let anchors: Vec<f64> = vec![
        1.0, 0.5, 0.1, 1.0 / 3.0, 1.5, 2.0, 3.0, 7.0, 8.0, 16.0, 0.001, 1e-10, 1e22, 1e23, 16777215.0, 16777216.0, 2f64.powi(31), 2f64.powi(32), 2f64.powi(53), 2f64.powi(63), 2f64.powi(64), 2f64.powi(100),
        2f64.powi(127), 2f64.powi(128), f32::MAX as f64, f32::MIN_POSITIVE as f64, 2f64.powi(-149), 2f64.powi(-24), 2f64.powi(1023), f64::MAX, f64::MIN_POSITIVE, f64::from_bits(1), f64::from_bits((1u64 << 52) - 1),
    ];
    for a in anchors {
        for s in [1.0, -1.0] {
            let x = a * s;
            v.push(x);
            for up in [false, true] {
                let y = next_f64(x, up);
                if y.is_finite() {
                    v.push(y);
                }
            }
        }
    }
    for (s, e) in small {
        let m: f64 = NumCast::from(s.clone()).unwrap();
        v.push(m * 2f64.powi(*e as i32));
    }
    // distinct bit patterns, first occurrence order
    let mut seen = BTreeSet::new();
    v.retain(|x| seen.insert(x.to_bits()));
    v
}

fn f32_points(small: &[(BigInt, i64)]) -> Vec<f32> {
    let mut v: Vec<f32> = vec![0.0, -0.0, f32::INFINITY, f32::NEG_INFINITY, f32::NAN];
    let anchors: Vec<f32> = vec![
        1.0, 0.5, 0.1, 1.0 / 3.0, 1.5, 2.0, 3.0, 7.0, 8.0, 16.0, 0.001, 1e-10, 1e10, 16777215.0, 16777216.0, 2f32.powi(31), 2f32.powi(32), 2f32.powi(53), 2f32.powi(63), 2f32.powi(64), 2f32.powi(100), 2f32.powi(127),
        f32::MAX, f32::MIN_POSITIVE, f32::from_bits(1), f32::from_bits((1u32 << 23) - 1), 2f32.powi(-24),
    ];
    for a in anchors {
        for s in [1.0, -1.0] {
            let x = a * s;
            v.push(x);
            for up in [false, true] {
                let y = next_f32(x, up);
                if y.is_finite() {
                    v.push(y);
                }
            }
        }
    }
    for (s, e) in small {
        let m: f32 = NumCast::from(s.clone()).unwrap();
        v.push(m * 2f32.powi(*e as i32));
    }
    let mut seen = BTreeSet::new();
    v.retain(|x| seen.insert(x.to_bits()));
    v
}

/// (2^k + d) / 2^j fractions shared by floats and rationals
fn bin_fracs() -> Vec<(BigInt, u32)> {
    let mut v = vec![];
    for k in [24u32, 53, 64] {
        for d in [-1i32, 1] {
            for j in [1u32, 3, 64, 70] {
                v.push((p2(k) + d, j));
                v.push((-(p2(k) + d), j));
            }
        }
    }
    v
}

/// f64 values whose exact binary expansions are reproduced in the other types (with +-1 in the
/// last place)
fn f64_anchors() -> Vec<f64> {
    vec![0.1, 1.0 / 3.0, f64::from_bits(1), f64::MAX, f32::MAX as f64, 2f64.powi(-149), -0.1]
}

pub const HUGE_EXPS: [i64; 8] = [300, -300, 5000, -5000, 1_000_000, -1_000_000, 1_000_000_000, -1_000_000_000];

/// (significand, exponent) points of base `base`
fn float_points(base: u32, p: u32, e: i64) -> Vec<(BigInt, i64)> {
    let mut v = f_universe(base, p, e);
    for n in -20i64..=20 {
        v.push((BigInt::from(n), 0));
    }
    for k in [24u32, 53, 64, 128] {
        for d in -1i32..=1 {
            v.push((p2(k) + d, 0));
            v.push((-(p2(k) + d), 0));
        }
    }
    // s * 2^e2 written in this base (exact), if possible
    let from_bin = |s: &BigInt, e2: i64| -> Option<(BigInt, i64)> {
        if base.is_power_of_two() {
            let t = base.trailing_zeros() as i64;
            let q = Integer::div_floor(&e2, &t);
            let r = e2 - q * t;
            Some((s << (r as u32), q))
        } else if base % 2 == 0 {
            // base = 2 * h: 2^-j = h^j / base^j
            if e2 >= 0 {
                Some((s << (e2 as u32), 0))
            } else {
                Some((s * Pow::pow(BigInt::from(base / 2), (-e2) as u64), e2))
            }
        } else if e2 >= 0 {
            Some((s << (e2 as u32), 0))
        } else {
            None
        }
    };
    for (s, j) in bin_fracs() {
        if let Some(x) = from_bin(&s, -(j as i64)) {
            v.push(x);
        }
    }
    for f in f64_anchors() {
        let (m, e2) = decode_f64(f);
        for d in -1i32..=1 {
            if let Some(x) = from_bin(&(&m + d), e2) {
                v.push(x);
            }
        }
    }
    for ex in HUGE_EXPS {
        for s in [1i64, -1, base as i64 - 1, -(base as i64 - 1)] {
            v.push((BigInt::from(s), ex));
        }
    }
    // 64-bit binary neighbours of 10^e and 3^e (adjacent values in different bases at large exponents)
    if base.is_power_of_two() {
        for (b, ex) in [(10u32, 300i64), (10, -300), (10, 5000), (10, -5000), (3, 700), (3, -700)] {
            let x = Rat::scaled(&BigInt::one(), b, ex);
            // x ~ m * 2^sh with a 64-bit m
            let sh = x.floor_log(2) - 63;
            let m = if sh >= 0 { x.n.clone() >> (sh as u32) } else { (&x.n << ((-sh) as u32)) / &x.d };
            for d in 0i32..=1 {
                if let Some(p) = from_bin(&(&m + d), sh) {
                    v.push(p.clone());
                    v.push((-p.0, p.1));
                }
            }
        }
    }
    // distinct values (normalised representation)
    let mut seen = BTreeSet::new();
    let b = BigInt::from(base);
    v.retain(|(s, e)| {
        let (mut s, mut e) = (s.clone(), *e);
        if s.is_zero() {
            e = 0;
        } else {
            while (&s % &b).is_zero() {
                s /= &b;
                e += 1;
            }
        }
        seen.insert((s, e))
    });
    v
}

/// (numerator, denominator > 0) points, not necessarily reduced
fn rat_points(n_max: i64, d_max: i64, ints: &[BigInt]) -> Vec<(BigInt, BigInt)> {
    let mut v = vec![];
    for d in 1..=d_max {
        for n in -n_max..=n_max {
            v.push((BigInt::from(n), BigInt::from(d)));
        }
    }
    for k in [24u32, 53, 64, 128] {
        for d in -1i32..=1 {
            v.push((p2(k) + d, BigInt::one()));
            v.push((-(p2(k) + d), BigInt::one()));
        }
    }
    for (s, j) in bin_fracs() {
        v.push((s, p2(j)));
    }
    for (n, d) in [(1, 10), (3, 10), (1, 3), (2, 3), (-1, 3), (22, 7), (-1, 10)] {
        v.push((BigInt::from(n), BigInt::from(d)));
    }
    for f in f64_anchors() {
        let (m, e2) = decode_f64(f);
        for d in -1i32..=1 {
            if e2 >= 0 {
                v.push(((&m + d) << (e2 as u32), BigInt::one()));
            } else {
                v.push((&m + d, p2((-e2) as u32)));
            }
        }
    }
    for j in [149u32, 150, 1074, 1075, 1100] {
        v.push((BigInt::one(), p2(j)));
        v.push((-BigInt::one(), p2(j)));
        v.push((BigInt::from(3), p2(j)));
    }
    v.push((p2(1100), BigInt::one()));
    v.push((p2(1100) + 1, p2(3)));
    // neighbours of powers of ten
    let t300 = Pow::pow(BigInt::from(10), 300u32);
    for d in -1i32..=1 {
        v.push((&t300 + d, BigInt::one()));
        v.push((BigInt::one(), &t300 + d));
        v.push((-BigInt::one(), &t300 + d));
    }
    let t5000 = Pow::pow(BigInt::from(10), 5000u32);
    v.push((t5000.clone() + 1, BigInt::one()));
    v.push((BigInt::one(), t5000 + 1));
    // multi-word numerators and denominators, common factors
    let big: Vec<&BigInt> = ints.iter().filter(|x| x.bits() > 128 && x.bits() < 4096).step_by((ints.len() / 12).max(1)).collect();
    let g = p2(64) + 1;
    for a in big {
        v.push((a.clone(), BigInt::from(u64::MAX)));
        v.push((BigInt::from(u64::MAX), a.abs()));
        v.push((a * &g, &g * 3));
    }
    for (n, d) in [(1, 3), (-7, 5), (4, 2)] {
        v.push((BigInt::from(n) * &g, BigInt::from(d) * &g));
    }
    v
}

// ---------------------------------------------------------------------------------------------
// typed lists

macro_rules! prim_lists {
    ($($f:ident : $t:ty),*) => {
        pub struct Prims { $(pub $f: Vec<Item<$t>>,)* pub f32s: Vec<Item<f32>>, pub f64s: Vec<Item<f64>> }
        fn build_prims(bd: &mut Builder, ints: &[BigInt], f32v: &[f32], f64v: &[f64]) -> Prims {
            Prims {
                $($f: ints.iter().filter_map(|n| { let x: Option<$t> = NumCast::from(n.clone()); x.map(|x| bd.item(x, val_int(n), format!("{}{}", x, stringify!($t)))) }).collect(),)*
                f32s: f32v.iter().map(|&x| bd.item(x, val_f32(x), format!("{:e}f32 (bits {:#x})", x, x.to_bits()))).collect(),
                f64s: f64v.iter().map(|&x| bd.item(x, val_f64(x), format!("{:e}f64 (bits {:#x})", x, x.to_bits()))).collect(),
            }
        }
    };
}
prim_lists!(u8s: u8, u16s: u16, u32s: u32, u64s: u64, u128s: u128, usizes: usize, i8s: i8, i16s: i16, i32s: i32, i64s: i64, i128s: i128, isizes: isize);

pub struct FL<const B: Word> {
    z: Vec<Item<FBig<mode::Zero, B>>>,
    h: Vec<Item<FBig<mode::HalfAway, B>>>,
    r: Vec<Item<Repr<B>>>,
}

fn norm_digits(s: &BigInt, base: u32) -> usize {
    if s.is_zero() {
        return 0;
    }
    let b = BigInt::from(base);
    let mut s = s.abs();
    while (&s % &b).is_zero() {
        s /= &b;
    }
    digits_b(&s, base)
}

fn build_fl<const B: Word>(bd: &mut Builder, pts: &[(BigInt, i64)]) -> FL<B> {
    let mut fl = FL { z: vec![], h: vec![], r: vec![] };
    for (i, (s, e)) in pts.iter().enumerate() {
        let v = val_scaled(s, B as u32, *e);
        let d = norm_digits(s, B as u32);
        let precs = [0usize, d.max(1), d + 5];
        let (pz, ph) = (precs[i % 3], precs[(i + 1) % 3]);
        let how = format!("{}*{}^{}", show_int(s), B, e);
        fl.r.push(bd.item(mk_repr::<B>(s, *e), v.clone(), format!("Repr<{}> {}", B, how)));
        fl.z.push(bd.item(FBig::from_repr(mk_repr::<B>(s, *e), Context::new(pz)), v.clone(), format!("FBig<Zero,{}> {} (precision {})", B, how, pz)));
        fl.h.push(bd.item(FBig::from_repr(mk_repr::<B>(s, *e), Context::new(ph)), v, format!("FBig<HalfAway,{}> {} (precision {})", B, how, ph)));
    }
    for (r, v, name, p) in [(Repr::<B>::infinity(), Val::PosInf, "+inf", 0usize), (Repr::<B>::neg_infinity(), Val::NegInf, "-inf", 0), (Repr::<B>::infinity(), Val::PosInf, "+inf", 7)] {
        if p == 0 {
            fl.r.push(bd.item(r.clone(), v.clone(), format!("Repr<{}> {}", B, name)));
        }
        fl.z.push(bd.item(FBig::from_repr(r.clone(), Context::new(p)), v.clone(), format!("FBig<Zero,{}> {} (precision {})", B, name, p)));
        fl.h.push(bd.item(FBig::from_repr(r, Context::new(p)), v, format!("FBig<HalfAway,{}> {} (precision {})", B, name, p)));
    }
    fl
}

/// F(B,P,E) x every admissible precision of {0, 1, digits, digits+5}: the same-type AbsOrd of
/// FBig looks at the precision
fn build_fp<const B: Word>(bd: &mut Builder, p: u32, e: i64) -> Vec<Item<FBig<mode::Zero, B>>> {
    let mut out = vec![];
    for (s, ex) in f_universe(B as u32, p, e) {
        let d = norm_digits(&s, B as u32);
        let mut precs = vec![0usize, d.max(1), d + 5];
        if d <= 1 && !precs.contains(&1) {
            precs.push(1);
        }
        for pr in precs {
            out.push(bd.item(FBig::from_repr(mk_repr::<B>(&s, ex), Context::new(pr)), val_scaled(&s, B as u32, ex), format!("FBig<Zero,{}> {}*{}^{} (precision {})", B, s, B, ex, pr)));
        }
    }
    for (r, v, name) in [(Repr::<B>::infinity(), Val::PosInf, "+inf"), (Repr::<B>::neg_infinity(), Val::NegInf, "-inf")] {
        out.push(bd.item(FBig::from_repr(r, Context::new(3)), v, format!("FBig<Zero,{}> {} (precision 3)", B, name)));
    }
    out
}

// ---------------------------------------------------------------------------------------------
// blocks: many typed sub-universes walked as one sweep

type CaseFn<'a> = Box<dyn Fn(u64, &mut Rec) + Sync + 'a>;
struct Blocks<'a> {
    v: Vec<(String, u64, CaseFn<'a>)>,
}
impl<'a> Blocks<'a> {
    fn new() -> Self {
        Blocks { v: vec![] }
    }
    fn add(&mut self, label: String, n: u64, f: impl Fn(u64, &mut Rec) + Sync + 'a) {
        if n > 0 {
            self.v.push((label, n, Box::new(f)));
        }
    }
    fn run(self, ctx: &mut Ctx, name: &str) {
        let mut starts = Vec::with_capacity(self.v.len());
        let mut total = 0u64;
        for (_, n, _) in &self.v {
            starts.push(total);
            total += n;
        }
        let blocks = &self.v;
        let st = &starts;
        ctx.sweep(name, total, |i, rec| {
            let k = st.partition_point(|&s| s <= i) - 1;
            let (label, _, f) = &blocks[k];
            rec.hit(label);
            f(i - st[k], rec)
        });
        let labels: Vec<&str> = self.v.iter().map(|b| b.0.as_str()).collect();
        ctx.require_classes(name, &labels);
        ctx.bound(&format!("{}.type_pairs", name), self.v.len() as u64);
    }
}

/// signature class of a pair: sign / zero / infinity / NaN / astronomic scale of the two values
fn sig_class(tab: &Tab, a: u32, b: u32) -> String {
    let t = |id: u32| match tab.cls[id as usize] {
        "+sub1" | "+small" | "+large" => "+",
        "-sub1" | "-small" | "-large" => "-",
        "+astro" | "+astroinv" => "+astro",
        "-astro" | "-astroinv" => "-astro",
        c => c,
    };
    format!("{}/{}", t(a), t(b))
}
/// call-site name without the rounding mode
fn site(n: &str) -> String {
    n.replace("Zero,", "").replace("HalfAway,", "")
}

fn rel_name(o: Option<Ordering>) -> &'static str {
    match o {
        None => "rel:unordered(NaN)",
        Some(Ordering::Less) => "rel:less",
        Some(Ordering::Equal) => "rel:equal",
        Some(Ordering::Greater) => "rel:greater",
    }
}

/// a.num_*(b) against the reference
fn ord_case<A: NumOrd<B>, B>(rec: &mut Rec, tab: &Tab, na: &str, a: &Item<A>, nb: &str, b: &Item<B>, deep: bool) {
    let want = tab.want(a.id, b.id);
    let case = || format!("{}  vs  {}", a.how, b.how);
    let cls = || sig_class(tab, a.id, b.id);
    let (na, nb) = (&site(na), &site(nb));
    rec.step();
    match guard(|| a.x.num_partial_cmp(&b.x)) {
        Ok(g) if g == want => {}
        // the other methods are (mostly provided) wrappers of this one: one report per case
        Ok(g) => return rec.fail(format!("{}|{}::num_partial_cmp({})|wrong-order|{}", P, na, nb, cls()), case(), format!("{:?}", g), format!("{:?}", want)),
        Err(p) => return rec.fail(format!("{}|{}::num_partial_cmp({})|panic|{}", P, na, nb, cls()), case(), p, format!("{:?}", want)),
    }
    rec.step();
    match (guard(|| a.x.num_cmp(&b.x)), want) {
        (Ok(g), Some(w)) if g == w => {}
        (Ok(g), Some(w)) => rec.fail(format!("{}|{}::num_cmp({})|wrong-order|{}", P, na, nb, cls()), case(), format!("{:?}", g), format!("{:?}", w)),
        (Err(p), Some(w)) => rec.fail(format!("{}|{}::num_cmp({})|panic|{}", P, na, nb, cls()), case(), p, format!("{:?}", w)),
        (Ok(g), None) => rec.fail(format!("{}|{}::num_cmp({})|missing-panic|{}", P, na, nb, cls()), case(), format!("{:?}", g), "panic (num_cmp with a NaN operand)"),
        (Err(_), None) => rec.hit("num_cmp-panics-on-NaN"),
    }
    rec.step();
    let weq = want == Some(Ordering::Equal);
    match guard(|| (a.x.num_eq(&b.x), a.x.num_ne(&b.x))) {
        Ok((e, n)) if e == weq && n != weq => {}
        Ok(g) => rec.fail(format!("{}|{}::num_eq({})|wrong-value|{}", P, na, nb, cls()), case(), format!("(eq, ne) = {:?}", g), format!("{:?}", (weq, !weq))),
        Err(p) => rec.fail(format!("{}|{}::num_eq({})|panic|{}", P, na, nb, cls()), case(), p, format!("{:?}", (weq, !weq))),
    }
    if deep {
        rec.step();
        let w = (want == Some(Ordering::Less), matches!(want, Some(Ordering::Less | Ordering::Equal)), want == Some(Ordering::Greater), matches!(want, Some(Ordering::Greater | Ordering::Equal)));
        match guard(|| (a.x.num_lt(&b.x), a.x.num_le(&b.x), a.x.num_gt(&b.x), a.x.num_ge(&b.x))) {
            Ok(g) if g == w => {}
            Ok(g) => rec.fail(format!("{}|{}::num_lt..ge({})|wrong-value|{}", P, na, nb, cls()), case(), format!("(lt, le, gt, ge) = {:?}", g), format!("{:?}", w)),
            Err(p) => rec.fail(format!("{}|{}::num_lt..ge({})|panic|{}", P, na, nb, cls()), case(), p, format!("{:?}", w)),
        }
    }
}

#[derive(Clone, Copy, PartialEq)]
enum Astro3 {
    /// skip pairs that are close at an astronomic scale
    SkipNear,
    /// only pairs that are close at an astronomic scale, with both log2 magnitudes <= 2^24
    OnlyNear,
}

fn pair_classes(rec: &mut Rec, tab: &Tab, a: u32, b: u32, want: Option<Ordering>) {
    rec.hit(rel_name(want));
    if tab.near(a, b) {
        rec.hit("near(|log2 a - log2 b| <= 2)");
    }
    if let Some(o) = want {
        let (ra, rb) = (tab.rank[a as usize], tab.rank[b as usize]);
        if o != Ordering::Equal && ra.abs_diff(rb) == 1 {
            rec.hit("adjacent-in-universe");
        }
        if tab.vals[a as usize].is_finite_nonzero() && tab.vals[b as usize].is_finite_nonzero() {
            rec.nontrivial();
        }
    }
}

/// decide whether the pair belongs to this sweep; counts the skipped ones
fn astro_filter(rec: &mut Rec, tab: &Tab, a: u32, b: u32, mode: Astro3) -> bool {
    let near = tab.near_astronomic(a, b);
    match mode {
        Astro3::SkipNear => {
            if near {
                rec.hit("skipped:close-pair-at-astronomic-scale");
            }
            !near
        }
        Astro3::OnlyNear => near && tab.max_l2(a, b) <= (1 << 24),
    }
}

#[allow(clippy::too_many_arguments)]
fn add_ord<'a, A, B>(bl: &mut Blocks<'a>, tab: &'a Tab, na: &'a str, va: &'a [Item<A>], nb: &'a str, vb: &'a [Item<B>], deep: bool, mode: Astro3)
where
    A: NumOrd<B> + Sync,
    B: NumOrd<A> + Sync,
{
    let n = vb.len() as u64;
    bl.add(format!("pair:{}~{}", na, nb), va.len() as u64 * n, move |i, rec| {
        let (a, b) = (&va[(i / n) as usize], &vb[(i % n) as usize]);
        if !astro_filter(rec, tab, a.id, b.id, mode) {
            return;
        }
        ord_case(rec, tab, na, a, nb, b, deep);
        ord_case(rec, tab, nb, b, na, a, deep);
        pair_classes(rec, tab, a.id, b.id, tab.want(a.id, b.id));
        rec.sample(|| format!("{} ~ {}: {}  vs  {}", na, nb, a.how, b.how));
    });
}

fn abs_case<A: AbsOrd<B>, B>(rec: &mut Rec, tab: &Tab, na: &str, a: &Item<A>, nb: &str, b: &Item<B>) {
    let want = tab.want_abs(a.id, b.id);
    let case = || format!("|{}|  vs  |{}|", a.how, b.how);
    let cls = || sig_class(tab, a.id, b.id);
    let (na, nb) = (&site(na), &site(nb));
    rec.step();
    match (guard(|| a.x.abs_cmp(&b.x)), want) {
        (Ok(g), Some(w)) if g == w => {}
        (Ok(g), Some(w)) => rec.fail(format!("{}|{}::abs_cmp({})|wrong-order|{}", P, na, nb, cls()), case(), format!("{:?}", g), format!("{:?}", w)),
        (Err(p), Some(w)) => rec.fail(format!("{}|{}::abs_cmp({})|panic|{}", P, na, nb, crate::core::panic_class(&p)), case(), p, format!("{:?}", w)),
        (Ok(g), None) => rec.fail(format!("{}|{}::abs_cmp({})|missing-panic|{}", P, na, nb, cls()), case(), format!("{:?}", g), "panic (abs_cmp is documented to panic on NaN)"),
        (Err(p), None) => {
            if crate::core::is_internal_panic(&p) {
                rec.fail(format!("{}|{}::abs_cmp({})|internal-panic|{}", P, na, nb, cls()), case(), p, "the documented NaN panic");
            } else {
                rec.hit("abs_cmp-panics-on-NaN")
            }
        }
    }
}

fn add_abs<'a, A, B>(bl: &mut Blocks<'a>, tab: &'a Tab, na: &'a str, va: &'a [Item<A>], nb: &'a str, vb: &'a [Item<B>], mode: Astro3)
where
    A: AbsOrd<B> + Sync,
    B: AbsOrd<A> + Sync,
{
    let n = vb.len() as u64;
    bl.add(format!("abs:{}~{}", na, nb), va.len() as u64 * n, move |i, rec| {
        let (a, b) = (&va[(i / n) as usize], &vb[(i % n) as usize]);
        if !astro_filter(rec, tab, a.id, b.id, mode) {
            return;
        }
        abs_case(rec, tab, na, a, nb, b);
        abs_case(rec, tab, nb, b, na, a);
        let want = tab.want_abs(a.id, b.id);
        pair_classes(rec, tab, a.id, b.id, want);
        if want == Some(Ordering::Equal) && tab.rank[a.id as usize] != tab.rank[b.id as usize] {
            rec.hit("equal-magnitude-opposite-sign");
        }
        rec.sample(|| format!("{} ~ {}: |{}|  vs  |{}|", na, nb, a.how, b.how));
    });
}

/// `$f!(…, name, list)` for the 12 primitive integer types and the two float types
macro_rules! each_prim {
    ($m:ident, $pr:expr, ($($pre:tt)*)) => {
        $m!($($pre)*, "u8", &$pr.u8s); $m!($($pre)*, "u16", &$pr.u16s); $m!($($pre)*, "u32", &$pr.u32s); $m!($($pre)*, "u64", &$pr.u64s);
        $m!($($pre)*, "u128", &$pr.u128s); $m!($($pre)*, "usize", &$pr.usizes); $m!($($pre)*, "i8", &$pr.i8s); $m!($($pre)*, "i16", &$pr.i16s);
        $m!($($pre)*, "i32", &$pr.i32s); $m!($($pre)*, "i64", &$pr.i64s); $m!($($pre)*, "i128", &$pr.i128s); $m!($($pre)*, "isize", &$pr.isizes);
        $m!($($pre)*, "f32", &$pr.f32s); $m!($($pre)*, "f64", &$pr.f64s);
    };
}

// ---------------------------------------------------------------------------------------------
// hashing

#[derive(Default)]
struct RecHasher(Vec<u8>);
impl Hasher for RecHasher {
    fn finish(&self) -> u64 {
        0
    }
    fn write(&mut self, b: &[u8]) {
        self.0.extend_from_slice(b)
    }
}

trait HItem: Sync {
    fn id(&self) -> u32;
    fn ty(&self) -> &str;
    fn how(&self) -> &str;
    fn bytes(&self) -> Vec<u8>;
}
struct H<'a, T> {
    it: &'a Item<T>,
    ty: &'static str,
}
impl<T: NumHash + Sync> HItem for H<'_, T> {
    fn id(&self) -> u32 {
        self.it.id
    }
    fn ty(&self) -> &str {
        self.ty
    }
    fn how(&self) -> &str {
        &self.it.how
    }
    fn bytes(&self) -> Vec<u8> {
        let mut h = RecHasher::default();
        self.it.x.num_hash(&mut h);
        h.0
    }
}
fn push_h<'a, T: NumHash + Sync>(out: &mut Vec<Box<dyn HItem + 'a>>, ty: &'static str, v: &'a [Item<T>]) {
    for it in v {
        out.push(Box::new(H { it, ty }));
    }
}
fn i128_bytes(x: i128) -> Vec<u8> {
    let mut h = RecHasher::default();
    x.hash(&mut h);
    h.0
}

fn hash_sweep(ctx: &mut Ctx, tab: &Tab, items: &[Box<dyn HItem + '_>]) {
    // first member of every group of numerically equal values (primitives come first in `items`)
    let mut first: BTreeMap<u32, usize> = BTreeMap::new();
    let mut types_in_group: BTreeMap<u32, BTreeSet<&str>> = BTreeMap::new();
    for (i, it) in items.iter().enumerate() {
        let r = tab.rank[it.id() as usize];
        if r != NAN_RANK {
            first.entry(r).or_insert(i);
            types_in_group.entry(r).or_default().insert(it.ty());
        }
    }
    ctx.bound("hash.groups_of_equal_values", first.len() as u64);
    ctx.bound("hash.groups_with_two_or_more_types", types_in_group.values().filter(|s| s.len() > 1).count() as u64);
    let (first, tig) = (&first, &types_in_group);
    ctx.sweep("hash.equal-values", items.len() as u64, |i, rec| {
        let it = &items[i as usize];
        let id = it.id() as usize;
        rec.step();
        let mine = match guard(|| it.bytes()) {
            Ok(b) => b,
            Err(p) => {
                rec.fail(format!("{}|{}::num_hash|panic|{}", P, site(it.ty()), tab.cls[id]), it.how().to_string(), p, "a hash");
                return;
            }
        };
        if tab.nan[id] {
            rec.hit("nan:not-judged");
            return;
        }
        let formula = ref_hash(&tab.vals[id]).map(i128_bytes);
        match &formula {
            Some(f) if *f == mine => rec.hit("agrees-with-documented-formula(n*d^-1 mod 2^127-1)"),
            Some(_) => rec.hit("differs-from-documented-formula(not judged by itself)"),
            None => rec.hit("formula-undefined(denominator = 0 mod 2^127-1)"),
        }
        let r = tab.rank[id];
        let g = first[&r];
        if tig[&r].len() > 1 {
            rec.hit("value-present-in-several-types");
        } else {
            rec.hit("value-present-in-one-type-only");
        }
        if !tab.vals[id].is_zero() && tab.vals[id].is_finite_nonzero() {
            rec.nontrivial();
        }
        if tab.cls[id] == "+inf" || tab.cls[id] == "-inf" {
            rec.hit("infinity");
        }
        if g as u64 == i {
            return;
        }
        let anchor = &items[g];
        rec.step();
        match guard(|| anchor.bytes()) {
            Ok(theirs) if theirs == mine => rec.hit("equal-hash-as-first-member-of-group"),
            Ok(theirs) => {
                // blame the side that leaves the documented formula
                let blamed = match &formula {
                    Some(f) if *f == mine && *f != theirs => anchor.ty(),
                    _ => it.ty(),
                };
                rec.fail(format!("{}|{}::num_hash|unequal-hash-for-equal-values|{}", P, site(blamed), tab.cls[id]), format!("{}  and  {}", it.how(), anchor.how()), format!("hasher input {:02x?} vs {:02x?}", mine, theirs), "numerically equal values feed the hasher identically");
            }
            Err(_) => {} // reported at the anchor's own case
        }
        rec.sample(|| format!("num_hash: {}  ==  {}", it.how(), anchor.how()));
    });
    ctx.require_classes("hash.equal-values", &["equal-hash-as-first-member-of-group", "value-present-in-several-types", "agrees-with-documented-formula(n*d^-1 mod 2^127-1)", "infinity"]);
}

// ---------------------------------------------------------------------------------------------
// inventory cross-check and reference self-checks

/// (file, trait pattern, number of textual impl lines the block lists below were written from)
const INVENTORY: [(&str, &str, usize); 7] = [
    ("integer/src/third_party/num_order.rs", "NumOrd<", 16),
    ("float/src/third_party/num_order.rs", "NumOrd<", 16),
    ("rational/src/third_party/num_order.rs", "NumOrd<", 13),
    ("integer/src/cmp.rs", "AbsOrd", 4),
    ("float/src/cmp.rs", "AbsOrd", 5),
    ("rational/src/cmp.rs", "AbsOrd", 10),
    ("base/src/sign.rs", "AbsOrd", 2),
];

fn inventory_check(ctx: &mut Ctx) {
    // the dashu checkout this binary was built against (path dependency of dv/Cargo.toml)
    let toml = include_str!("../Cargo.toml");
    let root = toml.lines().find(|l| l.starts_with("dashu-int")).and_then(|l| l.split("path = \"").nth(1)).and_then(|r| r.split('"').next()).map(|p| p.trim_end_matches("/integer").to_string());
    let root = match root {
        Some(r) => r,
        None => {
            ctx.bound("inventory_cross_check", "skipped: dashu path not found in Cargo.toml");
            return;
        }
    };
    let mut checked = 0;
    for (file, pat, expect) in INVENTORY {
        match std::fs::read_to_string(format!("{}/{}", root, file)) {
            Ok(src) => {
                let n = src.lines().filter(|l| l.trim_start().starts_with("impl") && l.contains(pat)).count();
                if n != expect {
                    ctx.machinery(format!("impl inventory out of date: {} has {} `impl … {}` lines, the check was written for {}", file, n, pat, expect));
                }
                checked += 1;
            }
            Err(_) => {}
        }
    }
    ctx.bound("inventory_cross_check", format!("{} of {} source files counted against the inventory", checked, INVENTORY.len()));
}

fn self_check(ctx: &mut Ctx, f64v: &[f64], ints: &[BigInt]) {
    // log2 enclosures
    for (fam, l) in [(10u32, std::f64::consts::LOG2_10), (3, 3f64.log2()), (36, 36f64.log2())] {
        let (lo, hi) = log2_fam(fam);
        let (lo, hi) = (lo as f64 / (1u64 << FX) as f64, hi as f64 / (1u64 << FX) as f64);
        if !(lo <= l + 1e-11 && l - 1e-11 <= hi && hi - lo < 1e-11) {
            ctx.machinery(format!("log2 enclosure of {} is wrong: [{}, {}]", fam, lo, hi));
        }
    }
    // order of binary64 values against the hardware
    let mut n = 0u64;
    for &a in f64v {
        for &b in f64v {
            if a.is_nan() || b.is_nan() {
                continue;
            }
            n += 1;
            if Some(vcmp(&val_f64(a), &val_f64(b))) != a.partial_cmp(&b) {
                ctx.machinery(format!("reference order disagrees with the hardware on {:e} vs {:e}", a, b));
                return;
            }
        }
    }
    // integers against i128
    let small: Vec<i128> = ints.iter().filter_map(|x| NumCast::from(x.clone())).collect();
    for &a in small.iter().step_by(3) {
        for &b in &small {
            n += 1;
            if vcmp(&val_int(&BigInt::from(a)), &val_int(&BigInt::from(b))) != a.cmp(&b) {
                ctx.machinery(format!("reference order disagrees with i128 on {} vs {}", a, b));
                return;
            }
        }
    }
    // symbolic (astronomic) comparison against materialised rationals at moderate exponents
    let mut forced = vec![];
    for base in [2u32, 10, 16, 3] {
        for e in [300i64, -300, 320, 5000, -5000, 4990] {
            for s in [1i64, -1, base as i64 - 1, 7 * base as i64] {
                let s = BigInt::from(s);
                forced.push((val_scaled_thr(&s, base, e, 0.0), Rat::scaled(&s, base, e)));
            }
        }
    }
    let before = UNDECIDED.load(std::sync::atomic::Ordering::Relaxed);
    let (mut decided, mut undecided) = (0u64, 0u64);
    for (va, ra) in &forced {
        for (vb, rb) in &forced {
            let u0 = UNDECIDED.load(std::sync::atomic::Ordering::Relaxed);
            let c = vcmp(va, vb);
            if UNDECIDED.load(std::sync::atomic::Ordering::Relaxed) != u0 {
                undecided += 1;
                continue;
            }
            decided += 1;
            if c != ra.cmp(rb) {
                ctx.machinery(format!("symbolic order disagrees with the exact rationals on {} vs {}", va.show(), vb.show()));
                return;
            }
        }
        // and against a materialised value
        for probe in [Rat::from_i(1), Rat::from_i(-5), Rat::new(BigInt::one(), p2(200))] {
            let c = vcmp(va, &Val::Fin(probe.clone()));
            decided += 1;
            if c != ra.cmp(&probe) {
                ctx.machinery(format!("symbolic order disagrees with the exact rationals on {} vs {}", va.show(), probe.show()));
                return;
            }
        }
    }
    UNDECIDED.store(before, std::sync::atomic::Ordering::Relaxed);
    if decided < 5000 || undecided > decided / 4 {
        ctx.machinery(format!("symbolic-order self-check too weak: {} decided, {} undecided", decided, undecided));
    }
    // hash formula against num-order's own primitive implementations
    for &x in f64v {
        if x.is_nan() {
            continue;
        }
        let mut h = RecHasher::default();
        x.num_hash(&mut h);
        n += 1;
        if ref_hash(&val_f64(x)).map(i128_bytes) != Some(h.0) {
            ctx.machinery(format!("reference hash formula disagrees with num-order's f64 hash on {:e}", x));
            return;
        }
    }
    for &a in &small {
        let mut h = RecHasher::default();
        a.num_hash(&mut h);
        if ref_hash(&val_int(&BigInt::from(a))).map(i128_bytes) != Some(h.0) {
            ctx.machinery(format!("reference hash formula disagrees with num-order's i128 hash on {}", a));
            return;
        }
    }
    ctx.bound("reference_self_check_comparisons", n + decided);
}

// ---------------------------------------------------------------------------------------------

fn leak(s: String) -> &'static str {
    Box::leak(s.into_boxed_str())
}

struct Ints {
    ub: Vec<Item<UBig>>,
    ib: Vec<Item<IBig>>,
}

macro_rules! ord_m {
    ($bl:expr, $tab:expr, $na:expr, $va:expr, $deep:expr, $nb:expr, $vb:expr) => {
        add_ord($bl, $tab, $na, $va, $nb, $vb, $deep, Astro3::SkipNear)
    };
}

/// Repr<B> and FBig<_,B> against the integers and the primitives
fn add_float_base<'a, const B: Word>(bl: &mut Blocks<'a>, tab: &'a Tab, fl: &'a FL<B>, it: &'a Ints, pr: &'a Prims, deep: bool) {
    let rn = leak(format!("Repr<{}>", B));
    let zn = leak(format!("FBig<Zero,{}>", B));
    let hn = leak(format!("FBig<HalfAway,{}>", B));
    ord_m!(bl, tab, rn, &fl.r, deep, "UBig", &it.ub);
    ord_m!(bl, tab, rn, &fl.r, deep, "IBig", &it.ib);
    ord_m!(bl, tab, zn, &fl.z, deep, "UBig", &it.ub);
    ord_m!(bl, tab, hn, &fl.h, deep, "IBig", &it.ib);
    each_prim!(ord_m, pr, (bl, tab, rn, &fl.r, deep));
    each_prim!(ord_m, pr, (bl, tab, zn, &fl.z, deep));
}

fn add_float_cross<'a, const B1: Word, const B2: Word>(bl: &mut Blocks<'a>, tab: &'a Tab, a: &'a FL<B1>, b: &'a FL<B2>, deep: bool, mode: Astro3) {
    let n = |k: &str, b: Word| leak(format!("{}{}>", k, b));
    if B1 <= B2 {
        add_ord(bl, tab, n("Repr<", B1), &a.r, n("Repr<", B2), &b.r, deep, mode);
    }
    add_ord(bl, tab, n("FBig<Zero,", B1), &a.z, n("FBig<HalfAway,", B2), &b.h, deep, mode);
}

fn add_float_abs<'a, const B: Word>(bl: &mut Blocks<'a>, tab: &'a Tab, fl: &'a FL<B>, fp: &'a [Item<FBig<mode::Zero, B>>], it: &'a Ints, rb: &'a [Item<RBig>], rx: &'a [Item<Relaxed>]) {
    let rn = leak(format!("Repr<{}>", B));
    let zn = leak(format!("FBig<Zero,{}>", B));
    let m = Astro3::SkipNear;
    add_abs(bl, tab, zn, fp, zn, fp, m);
    add_abs(bl, tab, zn, &fl.z, zn, &fl.z, m);
    add_abs(bl, tab, rn, &fl.r, "UBig", &it.ub, m);
    add_abs(bl, tab, rn, &fl.r, "IBig", &it.ib, m);
    add_abs(bl, tab, zn, &fl.z, "UBig", &it.ub, m);
    add_abs(bl, tab, zn, &fl.z, "IBig", &it.ib, m);
    add_abs(bl, tab, "RBig", rb, zn, &fl.z, m);
    add_abs(bl, tab, "Relaxed", rx, zn, &fl.z, m);
}

fn astro_sub<T: Clone>(tab: &Tab, v: &[Item<T>]) -> Vec<Item<T>> {
    v.iter().filter(|it| tab.l2[it.id as usize] != i64::MIN && tab.l2[it.id as usize].abs() >= (1 << 19) && tab.l2[it.id as usize].abs() <= (1 << 24)).map(|it| Item { x: it.x.clone(), id: it.id, how: it.how.clone() }).collect()
}
fn astro_fl<const B: Word>(tab: &Tab, fl: &FL<B>) -> FL<B> {
    FL { z: astro_sub(tab, &fl.z), h: astro_sub(tab, &fl.h), r: astro_sub(tab, &fl.r) }
}

pub fn run(ctx: &mut Ctx) {
    ctx.rule = "for every ordered pair of types (A, B) with a NumOrd<B> for A impl (UBig, IBig, the 12 primitive integer types, f32, f64, Repr<B>/FBig<R,B> for bases 2, 10, 16 (+3 thorough), RBig, Relaxed; inventory from the three third_party/num_order.rs files) all pairs (a, b) of the value lists of the two types go through num_partial_cmp, num_cmp, num_eq/ne (and num_lt/le/gt/ge) in both directions; likewise abs_cmp for every AbsOrd pair (including the primitive impls of dashu-base); expected = order of the exact real values (NaN unordered: None / documented panic). Value lists: integers = closed universe I3 (quick: atoms {0,1,2,2^32,2^63,MAX-1,MAX}) + [-20,20] + neighbourhoods of 2^24, 2^53, 2^64, 2^128, of every primitive bound and of the f32/f64 range limits; primitives = those points that fit, floats +-0, +-inf, NaN, subnormals, anchors with next_up/next_down, all of F(2,3,4); FBig/Repr = F(B,P,E) + the integer anchors + (2^k+-1)/2^j + exact copies (+-1 in the last place) of f64 anchors + 1-digit significands at exponents +-300, +-5000, +-10^6, +-10^9, +-inf, precisions cycling over {0, digits, digits+5}; rationals = Q(N,D) unreduced for Relaxed, reduced for RBig, + the same anchors + multi-word fractions with common factors. NumHash: every value of every type is hashed into a recording hasher and compared with the first member of its group of numerically equal values. non-trivial = both values finite and non-zero".into();
    ctx.assume("reference = exact rationals over num_bigint; values with |exponent|*log2(base) > 40000 are compared symbolically (same base family: exact exponent alignment; otherwise disjoint log2 enclosures computed with integer arithmetic) — the self-check compares the symbolic order with materialised rationals at exponents 300 and 5000");
    ctx.assume("pairs of values that are both astronomically scaled (|log2| >= 2^19) and close to each other (log2 within 2^-16 relative) are exercised only up to |log2| <= 2^24 (sweep ord.astro-near); for |exponent| = 10^9 such pairs are not run: deciding them needs 10^9-digit numbers (a resource question, C16), every other pair with such a value is run");
    ctx.assume("hash: the property demands equal hasher input for numerically equal values; agreement with num-order's documented formula is only recorded, not judged; +inf / -inf of FBig, f32, f64 are treated as numerically equal among themselves (num_eq says so)");
    let quick = ctx.quick();
    let deep = !quick;
    inventory_check(ctx);

    // ---- universes
    let mut bd = Builder::default();
    let ints = int_points(quick, ctx.seed);
    let it = Ints {
        ub: ints.iter().filter(|n| !n.is_negative()).map(|n| bd.item(ref_to_u(n.magnitude()), val_int(n), format!("UBig {}", show_int(n)))).collect(),
        ib: ints.iter().map(|n| bd.item(ref_to_i(n), val_int(n), format!("IBig {}", show_int(n)))).collect(),
    };
    let small2 = f_universe(2, 3, 4);
    let (f32v, f64v) = (f32_points(&small2), f64_points(&small2));
    self_check(ctx, &f64v, &ints);
    let pr = build_prims(&mut bd, &ints, &f32v, &f64v);
    let (g2, g10, g16) = if quick { ((4, 5), (2, 3), (1, 4)) } else { ((6, 8), (3, 3), (2, 4)) };
    let fl2 = build_fl::<2>(&mut bd, &float_points(2, g2.0, g2.1));
    let fl10 = build_fl::<10>(&mut bd, &float_points(10, g10.0, g10.1));
    let fl16 = build_fl::<16>(&mut bd, &float_points(16, g16.0, g16.1));
    let fl3 = build_fl::<3>(&mut bd, &if quick { vec![] } else { float_points(3, 3, 5) });
    let fp2 = build_fp::<2>(&mut bd, ctx.pick(3, 4), ctx.pick(4, 6));
    let fp10 = build_fp::<10>(&mut bd, ctx.pick(1, 2), ctx.pick(4, 3));
    let fp16 = build_fp::<16>(&mut bd, 1, ctx.pick(2, 4));
    let fp3 = build_fp::<3>(&mut bd, 2, 3);
    let q = ctx.pick((8i64, 8i64), (24, 24));
    let rats = rat_points(q.0, q.1, &ints);
    let mut rb: Vec<Item<RBig>> = vec![];
    let mut rx: Vec<Item<Relaxed>> = vec![];
    for (k, (n, d)) in rats.iter().enumerate() {
        let v = Val::Fin(Rat::new(n.clone(), d.clone()));
        let reduced = n.gcd(d).is_one();
        let how = format!("{}/{}", show_int(n), show_int(d));
        rx.push(bd.item(Relaxed::from_parts(ref_to_i(n), ref_to_u(d.magnitude())), v.clone(), format!("Relaxed {}", how)));
        // RBig: every reduced spelling, and the multi-word unreduced ones (from_parts reduces)
        if reduced || d.bits() > 64 || k % 7 == 0 {
            rb.push(bd.item(RBig::from_parts(ref_to_i(n), ref_to_u(d.magnitude())), v, format!("RBig {}", how)));
        }
    }
    let tab = Tab::build(std::mem::take(&mut bd.vals));
    let und = UNDECIDED.load(std::sync::atomic::Ordering::Relaxed);
    if und != 0 {
        ctx.machinery(format!("the reference could not decide {} comparisons while ranking the universe", und));
    }
    ctx.bound("values_total(all types)", tab.vals.len() as u64);
    ctx.bound("distinct_exact_values", tab.distinct as u64);
    ctx.bound("integers(IBig list)", it.ib.len() as u64);
    ctx.bound("f32_values", pr.f32s.len() as u64);
    ctx.bound("f64_values", pr.f64s.len() as u64);
    ctx.bound("float_values_base2/10/16/3", serde_json::json!([fl2.r.len(), fl10.r.len(), fl16.r.len(), fl3.r.len()]));
    ctx.bound("rational_values(Relaxed/RBig)", serde_json::json!([rx.len(), rb.len()]));
    ctx.bound("huge_exponents", serde_json::json!(HUGE_EXPS.to_vec()));
    let tab = &tab;

    // ---- NumOrd: integer crate
    {
        let mut bl = Blocks::new();
        ord_m!(&mut bl, tab, "UBig", &it.ub, deep, "UBig", &it.ub);
        ord_m!(&mut bl, tab, "UBig", &it.ub, deep, "IBig", &it.ib);
        ord_m!(&mut bl, tab, "IBig", &it.ib, deep, "IBig", &it.ib);
        each_prim!(ord_m, pr, (&mut bl, tab, "UBig", &it.ub, deep));
        each_prim!(ord_m, pr, (&mut bl, tab, "IBig", &it.ib, deep));
        bl.run(ctx, "ord.integer");
        ctx.require_classes("ord.integer", &["rel:less", "rel:equal", "rel:greater", "rel:unordered(NaN)", "num_cmp-panics-on-NaN", "adjacent-in-universe", "near(|log2 a - log2 b| <= 2)"]);
    }
    // ---- NumOrd: float crate
    {
        let mut bl = Blocks::new();
        add_float_base(&mut bl, tab, &fl2, &it, &pr, deep);
        add_float_base(&mut bl, tab, &fl10, &it, &pr, deep);
        add_float_base(&mut bl, tab, &fl16, &it, &pr, deep);
        let m = Astro3::SkipNear;
        add_float_cross(&mut bl, tab, &fl2, &fl2, deep, m);
        add_float_cross(&mut bl, tab, &fl2, &fl10, deep, m);
        add_float_cross(&mut bl, tab, &fl2, &fl16, deep, m);
        add_float_cross(&mut bl, tab, &fl10, &fl2, deep, m);
        add_float_cross(&mut bl, tab, &fl10, &fl10, deep, m);
        add_float_cross(&mut bl, tab, &fl10, &fl16, deep, m);
        add_float_cross(&mut bl, tab, &fl16, &fl2, deep, m);
        add_float_cross(&mut bl, tab, &fl16, &fl10, deep, m);
        add_float_cross(&mut bl, tab, &fl16, &fl16, deep, m);
        if !quick {
            add_float_base(&mut bl, tab, &fl3, &it, &pr, deep);
            add_float_cross(&mut bl, tab, &fl3, &fl3, deep, m);
            add_float_cross(&mut bl, tab, &fl3, &fl2, deep, m);
            add_float_cross(&mut bl, tab, &fl3, &fl10, deep, m);
            add_float_cross(&mut bl, tab, &fl2, &fl3, deep, m);
            add_float_cross(&mut bl, tab, &fl10, &fl3, deep, m);
        }
        bl.run(ctx, "ord.float");
        ctx.require_classes("ord.float", &["rel:less", "rel:equal", "rel:greater", "rel:unordered(NaN)", "num_cmp-panics-on-NaN", "adjacent-in-universe", "near(|log2 a - log2 b| <= 2)", "skipped:close-pair-at-astronomic-scale"]);
    }
    // ---- NumOrd: rational crate
    {
        let mut bl = Blocks::new();
        ord_m!(&mut bl, tab, "RBig", &rb, deep, "Relaxed", &rx);
        ord_m!(&mut bl, tab, "RBig", &rb, deep, "UBig", &it.ub);
        ord_m!(&mut bl, tab, "RBig", &rb, deep, "IBig", &it.ib);
        ord_m!(&mut bl, tab, "Relaxed", &rx, deep, "UBig", &it.ub);
        ord_m!(&mut bl, tab, "Relaxed", &rx, deep, "IBig", &it.ib);
        each_prim!(ord_m, pr, (&mut bl, tab, "RBig", &rb, deep));
        each_prim!(ord_m, pr, (&mut bl, tab, "Relaxed", &rx, deep));
        ord_m!(&mut bl, tab, "RBig", &rb, deep, "FBig<Zero,2>", &fl2.z);
        ord_m!(&mut bl, tab, "RBig", &rb, deep, "FBig<HalfAway,10>", &fl10.h);
        ord_m!(&mut bl, tab, "RBig", &rb, deep, "FBig<Zero,16>", &fl16.z);
        ord_m!(&mut bl, tab, "Relaxed", &rx, deep, "FBig<HalfAway,2>", &fl2.h);
        ord_m!(&mut bl, tab, "Relaxed", &rx, deep, "FBig<Zero,10>", &fl10.z);
        ord_m!(&mut bl, tab, "Relaxed", &rx, deep, "FBig<HalfAway,16>", &fl16.h);
        if !quick {
            ord_m!(&mut bl, tab, "RBig", &rb, deep, "FBig<Zero,3>", &fl3.z);
            ord_m!(&mut bl, tab, "Relaxed", &rx, deep, "FBig<Zero,3>", &fl3.z);
        }
        bl.run(ctx, "ord.rational");
        ctx.require_classes("ord.rational", &["rel:less", "rel:equal", "rel:greater", "rel:unordered(NaN)", "num_cmp-panics-on-NaN", "adjacent-in-universe", "near(|log2 a - log2 b| <= 2)"]);
    }
    // ---- AbsOrd
    {
        let mut bl = Blocks::new();
        let m = Astro3::SkipNear;
        add_abs(&mut bl, tab, "i8", &pr.i8s, "i8", &pr.i8s, m);
        add_abs(&mut bl, tab, "i16", &pr.i16s, "i16", &pr.i16s, m);
        add_abs(&mut bl, tab, "i32", &pr.i32s, "i32", &pr.i32s, m);
        add_abs(&mut bl, tab, "i64", &pr.i64s, "i64", &pr.i64s, m);
        add_abs(&mut bl, tab, "i128", &pr.i128s, "i128", &pr.i128s, m);
        add_abs(&mut bl, tab, "isize", &pr.isizes, "isize", &pr.isizes, m);
        add_abs(&mut bl, tab, "f32", &pr.f32s, "f32", &pr.f32s, m);
        add_abs(&mut bl, tab, "f64", &pr.f64s, "f64", &pr.f64s, m);
        add_abs(&mut bl, tab, "UBig", &it.ub, "UBig", &it.ub, m);
        add_abs(&mut bl, tab, "IBig", &it.ib, "IBig", &it.ib, m);
        add_abs(&mut bl, tab, "IBig", &it.ib, "UBig", &it.ub, m);
        add_abs(&mut bl, tab, "RBig", &rb, "RBig", &rb, m);
        add_abs(&mut bl, tab, "RBig", &rb, "Relaxed", &rx, m);
        add_abs(&mut bl, tab, "Relaxed", &rx, "Relaxed", &rx, m);
        add_abs(&mut bl, tab, "RBig", &rb, "UBig", &it.ub, m);
        add_abs(&mut bl, tab, "RBig", &rb, "IBig", &it.ib, m);
        add_abs(&mut bl, tab, "Relaxed", &rx, "UBig", &it.ub, m);
        add_abs(&mut bl, tab, "Relaxed", &rx, "IBig", &it.ib, m);
        add_float_abs(&mut bl, tab, &fl2, &fp2, &it, &rb, &rx);
        add_float_abs(&mut bl, tab, &fl10, &fp10, &it, &rb, &rx);
        add_float_abs(&mut bl, tab, &fl16, &fp16, &it, &rb, &rx);
        if !quick {
            add_float_abs(&mut bl, tab, &fl3, &fp3, &it, &rb, &rx);
        }
        bl.run(ctx, "abs");
        ctx.require_classes("abs", &["rel:less", "rel:equal", "rel:greater", "rel:unordered(NaN)", "abs_cmp-panics-on-NaN", "equal-magnitude-opposite-sign", "adjacent-in-universe"]);
    }
    // ---- close pairs at an astronomic scale (|exponent| = 10^6): the exact path on huge numbers
    {
        let (a2, a10, a16) = (astro_fl(tab, &fl2), astro_fl(tab, &fl10), astro_fl(tab, &fl16));
        let (aub, aib) = (astro_sub(tab, &it.ub), astro_sub(tab, &it.ib));
        let (aub, aib) = (&aub, &aib);
        ctx.bound("astro_near_values_base2/10/16", serde_json::json!([a2.r.len(), a10.r.len(), a16.r.len()]));
        let mut bl = Blocks::new();
        let m = Astro3::OnlyNear;
        add_float_cross(&mut bl, tab, &a2, &a2, false, m);
        add_float_cross(&mut bl, tab, &a2, &a16, false, m);
        add_float_cross(&mut bl, tab, &a16, &a2, false, m);
        add_float_cross(&mut bl, tab, &a16, &a16, false, m);
        add_float_cross(&mut bl, tab, &a10, &a10, false, m);
        add_ord(&mut bl, tab, "Repr<2>", &a2.r, "UBig", aub, false, m);
        add_ord(&mut bl, tab, "Repr<2>", &a2.r, "IBig", aib, false, m);
        add_ord(&mut bl, tab, "FBig<Zero,2>", &a2.z, "UBig", aub, false, m);
        add_ord(&mut bl, tab, "FBig<Zero,2>", &a2.z, "IBig", aib, false, m);
        add_ord(&mut bl, tab, "Repr<16>", &a16.r, "UBig", aub, false, m);
        add_ord(&mut bl, tab, "Repr<16>", &a16.r, "IBig", aib, false, m);
        add_ord(&mut bl, tab, "FBig<Zero,16>", &a16.z, "UBig", aub, false, m);
        add_ord(&mut bl, tab, "FBig<Zero,16>", &a16.z, "IBig", aib, false, m);
        add_ord(&mut bl, tab, "UBig", aub, "IBig", aib, false, m);
        add_abs(&mut bl, tab, "Repr<2>", &a2.r, "UBig", aub, m);
        add_abs(&mut bl, tab, "Repr<2>", &a2.r, "IBig", aib, m);
        add_abs(&mut bl, tab, "FBig<Zero,2>", &a2.z, "UBig", aub, m);
        add_abs(&mut bl, tab, "FBig<Zero,2>", &a2.z, "IBig", aib, m);
        add_abs(&mut bl, tab, "Repr<16>", &a16.r, "UBig", aub, m);
        add_abs(&mut bl, tab, "Repr<16>", &a16.r, "IBig", aib, m);
        add_abs(&mut bl, tab, "FBig<Zero,16>", &a16.z, "UBig", aub, m);
        add_abs(&mut bl, tab, "FBig<Zero,16>", &a16.z, "IBig", aib, m);
        add_abs(&mut bl, tab, "IBig", aib, "UBig", aub, m);
        add_abs(&mut bl, tab, "FBig<Zero,2>", &a2.z, "FBig<Zero,2>", &a2.z, m);
        add_abs(&mut bl, tab, "FBig<Zero,10>", &a10.z, "FBig<Zero,10>", &a10.z, m);
        add_abs(&mut bl, tab, "FBig<Zero,16>", &a16.z, "FBig<Zero,16>", &a16.z, m);
        bl.run(ctx, "ord.astro-near");
        ctx.require_classes("ord.astro-near", &["rel:less", "rel:equal", "rel:greater"]);
    }
    // ---- NumHash
    {
        let mut items: Vec<Box<dyn HItem + '_>> = vec![];
        macro_rules! hp {
            ($x:expr, $y:expr, $name:expr, $list:expr) => {
                push_h(&mut items, $name, $list)
            };
        }
        each_prim!(hp, pr, (0, 0));
        push_h(&mut items, "UBig", &it.ub);
        push_h(&mut items, "IBig", &it.ib);
        push_h(&mut items, "RBig", &rb);
        push_h(&mut items, "Relaxed", &rx);
        push_h(&mut items, "Repr<2>", &fl2.r);
        push_h(&mut items, "FBig<Zero,2>", &fl2.z);
        push_h(&mut items, "Repr<10>", &fl10.r);
        push_h(&mut items, "FBig<HalfAway,10>", &fl10.h);
        push_h(&mut items, "Repr<16>", &fl16.r);
        push_h(&mut items, "FBig<Zero,16>", &fl16.z);
        push_h(&mut items, "Repr<3>", &fl3.r);
        push_h(&mut items, "FBig<Zero,3>", &fp3);
        hash_sweep(ctx, tab, &items);
    }
    let und = UNDECIDED.load(std::sync::atomic::Ordering::Relaxed);
    if und != 0 {
        ctx.machinery(format!("the reference could not decide {} comparisons", und));
    }
    let _ = (BigInt::zero().is_negative(), &fp3);
}
