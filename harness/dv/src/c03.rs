//! C03 — not built yet.
use crate::core::Ctx;

pub fn run(ctx: &mut Ctx) {
    ctx.machinery("check C03 is not built yet");
}
