//! Operation alphabet of the history explorer (shared by `dv` and by the Miri replayer `dvm`):
//! the pool of live values, the operations, their effect on the real values and on the
//! reference pool.

use crate::uni::*;
use dashu_base::UnsignedAbs;
use dashu_int::{IBig, UBig, Word};
use num_bigint::{BigInt, BigUint, Sign as NSign};
use num_traits::{One, Zero};

#[derive(Clone, Copy, PartialEq, Eq, Debug)]
pub enum Bin {
    Add,
    Sub,
    Mul,
    Div,
    Rem,
    And,
    Or,
    Xor,
}
const BINS: [Bin; 8] = [Bin::Add, Bin::Sub, Bin::Mul, Bin::Div, Bin::Rem, Bin::And, Bin::Or, Bin::Xor];

#[derive(Clone, Copy, PartialEq, Eq, Debug)]
pub enum Op {
    // d, s index the two IBig slots (0, 1)
    CloneFrom(u8, u8),
    AssignClone(u8, u8),
    Take(u8),
    AssignRef(u8, u8, Bin),  // x op= &y
    AssignVal(u8, u8, Bin),  // x op= y.clone()
    RefRef(u8, u8, Bin),     // x = &x op &y
    SelfOp(u8, Bin),         // x op= &x.clone()
    WithU(u8, Bin),          // x op= u.clone()
    Shl(u8, u16),
    Shr(u8, u16),
    Neg(u8),
    Pow2(u8),
    Bytes(u8),
    Parts(u8),
    Reinit(u8, u8),
    AddStatic(u8),
    CloneFromU(u8), // x.clone_from(u.as_ibig())
    FromU(u8),      // x = IBig::from(u.clone())
    // UBig slot
    UCloneFromAbs(u8),
    UFromAbs(u8),
    UAssign(u8, Bin), // u op= &|x|
    USelf(Bin),
    UShl(u16),
    UShr(u16),
    USetBit(u16),
    UClearBit(u16),
    UWords,
    UBytesBe,
    UOnes(u16),
    UTake,
    UReinit(u8),
    USplitLo(u16),
    UClearHigh(u16),
    USqr,
    // second generation
    DivRemAssign(u8, u8), // r = x.div_rem_assign(&y); drop r
    GcdAssign(u8, u8),    // x = gcd(x, y)
    Swap,                 // mem::swap(a, b)
    MulPrim(u8),          // x *= 1000003u32
    AddPrim(u8),          // x += u64::MAX
    SubPrimI(u8),         // x -= i128::MIN + 1
    FromU128(u8),         // x = IBig::from(constant u128)
    StrRoundTrip(u8),     // x = parse(format(x)) in radix 16
    USqrt,                // u = sqrt(u)
    UPow3,                // u = u^3
    UDivPrim,             // u /= 7u8
    URemPrim,             // u %= (2^64 - 59) as u64 value
    UPaddedWords,         // u = from_words(words ++ [0, 0])
    UChunks,              // u = from_chunks(to_chunks(u, 100), 100)
}

#[derive(Clone, Debug)]
pub struct Mirror {
    pub i: [BigInt; 2],
    pub u: BigUint,
}

pub struct Pool {
    pub i: [IBig; 2],
    pub u: UBig,
}

static STATIC_WORDS: [Word; 4] = [0x1234_5678 as Word, 0, Word::MAX, 0x0F0F as Word];

fn static_value() -> std::mem::ManuallyDrop<UBig> {
    // SAFETY (contract of from_static_words): the value is only read and never dropped
    std::mem::ManuallyDrop::new(unsafe { UBig::from_static_words(&STATIC_WORDS) })
}

pub fn start_values() -> &'static Vec<BigInt> {
    static V: std::sync::OnceLock<Vec<BigInt>> = std::sync::OnceLock::new();
    V.get_or_init(start_values_init)
}

fn start_values_init() -> Vec<BigInt> {
    let one = BigInt::one();
    vec![
        BigInt::zero(),
        one.clone(),
        -one.clone(),
        (&one << 64u32) - 1,
        &one << 64u32,
        (&one << 128u32) - 1,
        &one << 128u32,
        -(&one << 128u32),
        BigInt::from(shape(5, "lcgA", 0)),
        -BigInt::from(shape(9, "alt", 0)),
        BigInt::from(shape(3, "ones", 0)),
    ]
}

pub fn alphabet(full: bool) -> Vec<Op> {
    let mut v = vec![];
    let shifts: &[u16] = if full { &[1, 63, 64, 65, 128, 200] } else { &[1, 64, 65, 128] };
    let bits: &[u16] = if full { &[0, 63, 64, 127, 128, 130, 200] } else { &[0, 64, 130, 200] };
    for d in 0..2u8 {
        let s = 1 - d;
        v.push(Op::CloneFrom(d, s));
        v.push(Op::AssignClone(d, s));
        v.push(Op::Take(d));
        for b in BINS {
            v.push(Op::AssignRef(d, s, b));
            v.push(Op::AssignVal(d, s, b));
            v.push(Op::RefRef(d, s, b));
            v.push(Op::SelfOp(d, b));
            v.push(Op::WithU(d, b));
        }
        for &n in shifts {
            v.push(Op::Shl(d, n));
            v.push(Op::Shr(d, n));
        }
        v.push(Op::Neg(d));
        v.push(Op::Pow2(d));
        v.push(Op::Bytes(d));
        v.push(Op::Parts(d));
        for k in 0..start_values().len() as u8 {
            v.push(Op::Reinit(d, k));
        }
        v.push(Op::AddStatic(d));
        v.push(Op::CloneFromU(d));
        v.push(Op::FromU(d));
        v.push(Op::UCloneFromAbs(d));
        v.push(Op::UFromAbs(d));
        for b in BINS {
            v.push(Op::UAssign(d, b));
        }
    }
    for b in BINS {
        v.push(Op::USelf(b));
    }
    for &n in shifts {
        v.push(Op::UShl(n));
        v.push(Op::UShr(n));
    }
    for &n in bits {
        v.push(Op::USetBit(n));
        v.push(Op::UClearBit(n));
        v.push(Op::USplitLo(n));
        v.push(Op::UClearHigh(n));
    }
    v.push(Op::UWords);
    v.push(Op::UBytesBe);
    for n in [64u16, 128, 129, 192] {
        v.push(Op::UOnes(n));
    }
    v.push(Op::UTake);
    for k in 0..start_values().len() as u8 {
        if start_values()[k as usize].sign() != NSign::Minus {
            v.push(Op::UReinit(k));
        }
    }
    v.push(Op::USqr);
    for d in 0..2u8 {
        let s = 1 - d;
        v.push(Op::DivRemAssign(d, s));
        v.push(Op::GcdAssign(d, s));
        v.push(Op::MulPrim(d));
        v.push(Op::AddPrim(d));
        v.push(Op::SubPrimI(d));
        v.push(Op::FromU128(d));
        v.push(Op::StrRoundTrip(d));
    }
    v.push(Op::Swap);
    v.push(Op::USqrt);
    v.push(Op::UPow3);
    v.push(Op::UDivPrim);
    v.push(Op::URemPrim);
    v.push(Op::UPaddedWords);
    v.push(Op::UChunks);
    v
}

pub enum Skip {
    Precondition,
    TooLarge,
}

fn bin_ref_i(a: &BigInt, b: &BigInt, op: Bin) -> Result<BigInt, Skip> {
    Ok(match op {
        Bin::Add => a + b,
        Bin::Sub => a - b,
        Bin::Mul => a * b,
        Bin::Div => {
            if b.is_zero() {
                return Err(Skip::Precondition);
            }
            a / b
        }
        Bin::Rem => {
            if b.is_zero() {
                return Err(Skip::Precondition);
            }
            a % b
        }
        Bin::And => a & b,
        Bin::Or => a | b,
        Bin::Xor => a ^ b,
    })
}

fn bin_ref_u(a: &BigUint, b: &BigUint, op: Bin) -> Result<BigUint, Skip> {
    Ok(match op {
        Bin::Add => a + b,
        Bin::Sub => {
            if a < b {
                return Err(Skip::Precondition);
            }
            a - b
        }
        Bin::Mul => a * b,
        Bin::Div => {
            if b.is_zero() {
                return Err(Skip::Precondition);
            }
            a / b
        }
        Bin::Rem => {
            if b.is_zero() {
                return Err(Skip::Precondition);
            }
            a % b
        }
        Bin::And => a & b,
        Bin::Or => a | b,
        Bin::Xor => a ^ b,
    })
}

/// the operation on the reference pool
pub fn apply_ref(m: &mut Mirror, op: Op, max_words: usize) -> Result<(), Skip> {
    let sv = start_values();
    let lim = |x: &BigUint| if word_len(x) > max_words { Err(Skip::TooLarge) } else { Ok(()) };
    match op {
        Op::CloneFrom(d, s) | Op::AssignClone(d, s) => m.i[d as usize] = m.i[s as usize].clone(),
        Op::Take(d) => m.i[d as usize] = BigInt::zero(),
        Op::AssignRef(d, s, b) | Op::AssignVal(d, s, b) | Op::RefRef(d, s, b) => {
            let r = bin_ref_i(&m.i[d as usize], &m.i[s as usize], b)?;
            lim(r.magnitude())?;
            m.i[d as usize] = r;
        }
        Op::SelfOp(d, b) => {
            let r = bin_ref_i(&m.i[d as usize], &m.i[d as usize], b)?;
            lim(r.magnitude())?;
            m.i[d as usize] = r;
        }
        Op::WithU(d, b) => {
            let r = bin_ref_i(&m.i[d as usize], &BigInt::from(m.u.clone()), b)?;
            lim(r.magnitude())?;
            m.i[d as usize] = r;
        }
        Op::Shl(d, n) => {
            let r = &m.i[d as usize] << n as usize;
            lim(r.magnitude())?;
            m.i[d as usize] = r;
        }
        Op::Shr(d, n) => m.i[d as usize] = &m.i[d as usize] >> n as usize,
        Op::Neg(d) => m.i[d as usize] = -&m.i[d as usize],
        Op::Pow2(d) => {
            let r = &m.i[d as usize] * &m.i[d as usize];
            lim(r.magnitude())?;
            m.i[d as usize] = r;
        }
        Op::Bytes(_) | Op::Parts(_) | Op::UWords | Op::UBytesBe => {}
        Op::Reinit(d, k) => m.i[d as usize] = sv[k as usize].clone(),
        Op::AddStatic(d) => {
            let r = &m.i[d as usize] + BigInt::from(words_to_ref(&STATIC_WORDS));
            lim(r.magnitude())?;
            m.i[d as usize] = r;
        }
        Op::CloneFromU(d) | Op::FromU(d) => m.i[d as usize] = BigInt::from(m.u.clone()),
        Op::UCloneFromAbs(s) | Op::UFromAbs(s) => m.u = m.i[s as usize].magnitude().clone(),
        Op::UAssign(s, b) => {
            let r = bin_ref_u(&m.u, m.i[s as usize].magnitude(), b)?;
            lim(&r)?;
            m.u = r;
        }
        Op::USelf(b) => {
            let r = bin_ref_u(&m.u, &m.u, b)?;
            lim(&r)?;
            m.u = r;
        }
        Op::UShl(n) => {
            let r = &m.u << n as usize;
            lim(&r)?;
            m.u = r;
        }
        Op::UShr(n) => m.u = &m.u >> n as usize,
        Op::USetBit(n) => {
            let mut r = m.u.clone();
            r.set_bit(n as u64, true);
            lim(&r)?;
            m.u = r;
        }
        Op::UClearBit(n) => m.u.set_bit(n as u64, false),
        Op::UOnes(n) => m.u = (BigUint::one() << n as usize) - 1u32,
        Op::UTake => m.u = BigUint::zero(),
        Op::UReinit(k) => m.u = sv[k as usize].magnitude().clone(),
        Op::USplitLo(n) | Op::UClearHigh(n) => m.u = &m.u & ((BigUint::one() << n as usize) - 1u32),
        Op::USqr => {
            let r = &m.u * &m.u;
            lim(&r)?;
            m.u = r;
        }
        Op::DivRemAssign(d, s) => {
            if m.i[s as usize].is_zero() {
                return Err(Skip::Precondition);
            }
            m.i[d as usize] = &m.i[d as usize] / &m.i[s as usize];
        }
        Op::GcdAssign(d, s) => {
            if m.i[d as usize].is_zero() && m.i[s as usize].is_zero() {
                return Err(Skip::Precondition);
            }
            m.i[d as usize] = BigInt::from(gcd_ref(m.i[d as usize].magnitude(), m.i[s as usize].magnitude()));
        }
        Op::Swap => m.i.swap(0, 1),
        Op::MulPrim(d) => {
            let r = &m.i[d as usize] * 1000003u32;
            lim(r.magnitude())?;
            m.i[d as usize] = r;
        }
        Op::AddPrim(d) => {
            let r = &m.i[d as usize] + BigInt::from(u64::MAX);
            lim(r.magnitude())?;
            m.i[d as usize] = r;
        }
        Op::SubPrimI(d) => {
            let r = &m.i[d as usize] - BigInt::from(i128::MIN + 1);
            lim(r.magnitude())?;
            m.i[d as usize] = r;
        }
        Op::FromU128(d) => m.i[d as usize] = BigInt::from(U128_CONST),
        Op::StrRoundTrip(_) | Op::UPaddedWords | Op::UChunks => {}
        Op::USqrt => m.u = m.u.sqrt(),
        Op::UPow3 => {
            let r = &m.u * &m.u * &m.u;
            lim(&r)?;
            m.u = r;
        }
        Op::UDivPrim => m.u = &m.u / 7u32,
        Op::URemPrim => m.u = &m.u % BigUint::from(U64_MOD),
    }
    Ok(())
}

const U128_CONST: u128 = 0x8000_0000_0000_0001_FFFF_FFFF_0000_0000;
const U64_MOD: u64 = u64::MAX - 58;

fn gcd_ref(a: &BigUint, b: &BigUint) -> BigUint {
    let (mut a, mut b) = (a.clone(), b.clone());
    while !b.is_zero() {
        let r = &a % &b;
        a = b;
        b = r;
    }
    a
}

macro_rules! bin_assign {
    ($x:expr, $y:expr, $op:expr) => {
        match $op {
            Bin::Add => $x += $y,
            Bin::Sub => $x -= $y,
            Bin::Mul => $x *= $y,
            Bin::Div => $x /= $y,
            Bin::Rem => $x %= $y,
            Bin::And => $x &= $y,
            Bin::Or => $x |= $y,
            Bin::Xor => $x ^= $y,
        }
    };
}
macro_rules! bin_expr {
    ($x:expr, $y:expr, $op:expr) => {
        match $op {
            Bin::Add => $x + $y,
            Bin::Sub => $x - $y,
            Bin::Mul => $x * $y,
            Bin::Div => $x / $y,
            Bin::Rem => $x % $y,
            Bin::And => $x & $y,
            Bin::Or => $x | $y,
            Bin::Xor => $x ^ $y,
        }
    };
}

/// the operation on the real values
pub fn apply_real(p: &mut Pool, op: Op) {
    let sv = start_values();
    match op {
        Op::CloneFrom(d, s) => {
            let (x, y) = two(&mut p.i, d, s);
            x.clone_from(y);
        }
        Op::AssignClone(d, s) => p.i[d as usize] = p.i[s as usize].clone(),
        Op::Take(d) => drop(std::mem::take(&mut p.i[d as usize])),
        Op::AssignRef(d, s, b) => {
            let (x, y) = two(&mut p.i, d, s);
            bin_assign!(*x, &*y, b);
        }
        Op::AssignVal(d, s, b) => {
            let y = p.i[s as usize].clone();
            bin_assign!(p.i[d as usize], y, b);
        }
        Op::RefRef(d, s, b) => {
            let r = bin_expr!(&p.i[d as usize], &p.i[s as usize], b);
            p.i[d as usize] = r;
        }
        Op::SelfOp(d, b) => {
            let c = p.i[d as usize].clone();
            bin_assign!(p.i[d as usize], &c, b);
        }
        Op::WithU(d, b) => {
            let y = p.u.clone();
            bin_assign!(p.i[d as usize], y, b);
        }
        Op::Shl(d, n) => p.i[d as usize] <<= n as usize,
        Op::Shr(d, n) => p.i[d as usize] >>= n as usize,
        Op::Neg(d) => p.i[d as usize] = -std::mem::take(&mut p.i[d as usize]),
        Op::Pow2(d) => p.i[d as usize] = p.i[d as usize].pow(2),
        Op::Bytes(d) => p.i[d as usize] = IBig::from_le_bytes(&p.i[d as usize].to_le_bytes()),
        Op::Parts(d) => {
            let (s, m) = std::mem::take(&mut p.i[d as usize]).into_parts();
            p.i[d as usize] = IBig::from_parts(s, m);
        }
        Op::Reinit(d, k) => p.i[d as usize] = ref_to_i(&sv[k as usize]),
        Op::AddStatic(d) => {
            let st = static_value();
            let r: &UBig = &st;
            p.i[d as usize] += r;
        }
        Op::CloneFromU(d) => p.i[d as usize].clone_from(p.u.as_ibig()),
        Op::FromU(d) => p.i[d as usize] = IBig::from(p.u.clone()),
        Op::UCloneFromAbs(s) => {
            let t = p.i[s as usize].clone().unsigned_abs();
            p.u.clone_from(&t);
        }
        Op::UFromAbs(s) => p.u = p.i[s as usize].clone().unsigned_abs(),
        Op::UAssign(s, b) => {
            let t = p.i[s as usize].clone().unsigned_abs();
            bin_assign!(p.u, &t, b);
        }
        Op::USelf(b) => {
            let c = p.u.clone();
            bin_assign!(p.u, &c, b);
        }
        Op::UShl(n) => p.u <<= n as usize,
        Op::UShr(n) => p.u >>= n as usize,
        Op::USetBit(n) => p.u.set_bit(n as usize),
        Op::UClearBit(n) => p.u.clear_bit(n as usize),
        Op::UWords => p.u = UBig::from_words(p.u.as_words()),
        Op::UBytesBe => p.u = UBig::from_be_bytes(&p.u.to_be_bytes()),
        Op::UOnes(n) => p.u = UBig::ones(n as usize),
        Op::UTake => drop(std::mem::take(&mut p.u)),
        Op::UReinit(k) => p.u = ref_to_u(sv[k as usize].magnitude()),
        Op::USplitLo(n) => {
            let (lo, hi) = std::mem::take(&mut p.u).split_bits(n as usize);
            drop(hi);
            p.u = lo;
        }
        Op::UClearHigh(n) => p.u.clear_high_bits(n as usize),
        Op::USqr => p.u = p.u.sqr(),
        Op::DivRemAssign(d, s) => {
            let (x, y) = two(&mut p.i, d, s);
            let r = dashu_base::DivRemAssign::div_rem_assign(x, y);
            drop(r);
        }
        Op::GcdAssign(d, s) => {
            let g = dashu_base::Gcd::gcd(&p.i[d as usize], &p.i[s as usize]);
            p.i[d as usize] = IBig::from(g);
        }
        Op::Swap => p.i.swap(0, 1),
        Op::MulPrim(d) => p.i[d as usize] *= 1000003u32,
        Op::AddPrim(d) => p.i[d as usize] += u64::MAX,
        Op::SubPrimI(d) => p.i[d as usize] -= i128::MIN + 1,
        Op::FromU128(d) => p.i[d as usize] = IBig::from(U128_CONST),
        Op::StrRoundTrip(d) => {
            let t = p.i[d as usize].in_radix(16).to_string();
            p.i[d as usize] = IBig::from_str_radix(&t, 16).unwrap();
        }
        Op::USqrt => p.u = dashu_base::SquareRoot::sqrt(&p.u),
        Op::UPow3 => p.u = p.u.pow(3),
        Op::UDivPrim => p.u /= 7u8,
        Op::URemPrim => p.u = UBig::from(&p.u % U64_MOD),
        Op::UPaddedWords => {
            let mut w = p.u.as_words().to_vec();
            w.push(0);
            w.push(0);
            p.u = UBig::from_words(&w);
        }
        Op::UChunks => {
            if !p.u.is_zero() {
                let c = p.u.to_chunks(100);
                p.u = UBig::from_chunks(c.iter(), 100);
            }
        }
    }
}

fn two(v: &mut [IBig; 2], d: u8, s: u8) -> (&mut IBig, &IBig) {
    debug_assert!(d != s);
    let (l, r) = v.split_at_mut(1);
    if d == 0 {
        (&mut l[0], &r[0])
    } else {
        (&mut r[0], &l[0])
    }
}

pub fn build_pool(m: &Mirror) -> Pool {
    Pool { i: [ref_to_i(&m.i[0]), ref_to_i(&m.i[1])], u: ref_to_u(&m.u) }
}

pub fn start_pools() -> &'static Vec<Mirror> {
    static V: std::sync::OnceLock<Vec<Mirror>> = std::sync::OnceLock::new();
    V.get_or_init(start_pools_init)
}

fn start_pools_init() -> Vec<Mirror> {
    let sv = start_values();
    vec![
        Mirror { i: [sv[0].clone(), sv[0].clone()], u: BigUint::zero() },
        Mirror { i: [sv[6].clone(), -sv[4].clone()], u: sv[3].magnitude().clone() },
        Mirror { i: [sv[8].clone(), sv[9].clone()], u: sv[10].magnitude().clone() },
    ]
}

