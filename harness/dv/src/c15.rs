//! C15 — all call forms of an operation give the same answer (or all panic).
//! The form table is GENERATED from the rustdoc JSON of the working tree (tools/gen_forms.py →
//! gen_forms.rs): one closure per `impl <ops trait><Rhs> for Lhs` of dashu-int/-float/-ratio
//! (owned/borrowed operands, assign forms, primitive/UBig/IBig/RBig/FBig mixes, dashu_base ring
//! traits).  Forms are grouped into families (operation, output type); for every operand tuple of
//! the universe the set of outcomes over all applicable forms of a family must be a singleton.
//! Hand-written groups: Reduced ring elements, Sign multiplication, sqr/cubic/pow vs operator
//! chains, Context methods vs FBig operators, clone / clone_from independence.

use crate::core::{guard, Ctx, Rec, Tier};
use crate::fref::*;
use crate::h::unflatten;
use crate::uni::*;
use dashu_base::Sign;
use dashu_float::round::mode;
use dashu_float::{Context, FBig, Repr};
use dashu_int::fast_div::ConstDivisor;
use dashu_int::{IBig, UBig};
use dashu_ratio::{RBig, Relaxed};
use num_bigint::{BigInt, Sign as NSign};
use num_traits::{One, Signed, ToPrimitive, Zero};
use std::collections::BTreeMap;

const P: &str = "C15";

/// reference-side description of an operand
#[derive(Clone, Debug)]
pub enum Val {
    Q(Rat),
    F(BigInt, i64, usize), // significand, exponent, precision (base of the module's `F`)
    Inf(bool),             // +inf (true) / -inf as a float operand (used by C16 only)
}
impl Val {
    pub fn int(&self) -> Option<&BigInt> {
        match self {
            Val::Q(r) if r.is_int() => Some(&r.n),
            _ => None,
        }
    }
    pub fn show(&self) -> String {
        match self {
            Val::Q(r) => r.show(),
            Val::F(s, e, p) => format!("{}e{}@p{}", s, e, p),
            Val::Inf(pos) => if *pos { "+inf".into() } else { "-inf".into() },
        }
    }
    pub fn is_zero(&self) -> bool {
        match self {
            Val::Q(r) => r.is_zero(),
            Val::F(s, _, _) => s.is_zero(),
            Val::Inf(_) => false,
        }
    }
}

/// normalised outcome of a form
#[derive(Clone, Debug, PartialEq, Eq, PartialOrd, Ord)]
pub enum Out {
    Q(String),                // exact rational value n/d
    F(String, usize),         // float value as exact rational + precision
    Tup(Vec<Out>),
    Panic,
}

pub trait ToOut {
    fn to_out(&self) -> Out;
}
impl ToOut for UBig {
    fn to_out(&self) -> Out {
        Out::Q(u_to_ref(self).to_string())
    }
}
impl ToOut for IBig {
    fn to_out(&self) -> Out {
        Out::Q(i_to_ref(self).to_string())
    }
}
macro_rules! prim_out {
    ($($t:ty)*) => {$(
        impl ToOut for $t { fn to_out(&self) -> Out { Out::Q(self.to_string()) } }
        impl Mk for $t { fn mk(v: &Val) -> Option<Self> { <$t>::try_from(v.int()?.clone()).ok() } }
    )*};
}
prim_out!(u8 u16 u32 u64 u128 usize i8 i16 i32 i64 i128 isize);
impl ToOut for RBig {
    fn to_out(&self) -> Out {
        // canonical by type: numerator / denominator as stored
        Out::Q(format!("{}/{}", i_to_ref(self.numerator()), u_to_ref(self.denominator())))
    }
}
impl ToOut for Relaxed {
    fn to_out(&self) -> Out {
        // judged by value (the stored spelling is not unique)
        Out::Q(Rat::new(i_to_ref(self.numerator()), BigInt::from(u_to_ref(self.denominator()))).show() + " (relaxed)")
    }
}
impl<R: dashu_float::round::Round, const B: dashu_int::Word> ToOut for FBig<R, B> {
    fn to_out(&self) -> Out {
        if self.repr().is_infinite() {
            return Out::F(if self.repr().exponent() >= 0 { "+inf".into() } else { "-inf".into() }, self.precision());
        }
        Out::F(fval(self.repr()).rat().show(), self.precision())
    }
}
impl<A: ToOut, B2: ToOut> ToOut for (A, B2) {
    fn to_out(&self) -> Out {
        Out::Tup(vec![self.0.to_out(), self.1.to_out()])
    }
}
impl<A: ToOut, B2: ToOut, C: ToOut> ToOut for (A, B2, C) {
    fn to_out(&self) -> Out {
        // extended gcd: the Bezout coefficients are not unique by specification — compare g only
        Out::Tup(vec![self.0.to_out()])
    }
}
pub fn out<T: ToOut>(t: T) -> Out {
    t.to_out()
}

pub trait Mk: Sized {
    fn mk(v: &Val) -> Option<Self>;
}
impl Mk for UBig {
    fn mk(v: &Val) -> Option<Self> {
        let i = v.int()?;
        if i.sign() == NSign::Minus {
            return None;
        }
        Some(ref_to_u(i.magnitude()))
    }
}
impl Mk for IBig {
    fn mk(v: &Val) -> Option<Self> {
        Some(ref_to_i(v.int()?))
    }
}
impl Mk for ConstDivisor {
    fn mk(v: &Val) -> Option<Self> {
        let i = v.int()?;
        if i.sign() != NSign::Plus {
            return None;
        }
        Some(ConstDivisor::new(ref_to_u(i.magnitude())))
    }
}
impl Mk for RBig {
    fn mk(v: &Val) -> Option<Self> {
        match v {
            Val::Q(r) => Some(RBig::from_parts(ref_to_i(&r.n), ref_to_u(r.d.magnitude()))),
            _ => None,
        }
    }
}
impl Mk for Relaxed {
    fn mk(v: &Val) -> Option<Self> {
        match v {
            // a non-reduced spelling (3n/3d) so that the relaxed paths are really taken
            Val::Q(r) => { let (n3, d3): (BigInt, BigInt) = (&r.n * 3, &r.d * 3); Some(Relaxed::from_parts(ref_to_i(&n3), ref_to_u(d3.magnitude()))) }
            _ => None,
        }
    }
}

pub struct Form {
    pub fam: &'static str,
    pub out: &'static str,
    pub desc: &'static str,
    pub arity: u8,
    pub f: fn(&Val, &Val) -> Option<Result<Out, String>>,
}

/// the generated table, instantiated for one concrete float type
#[macro_export]
macro_rules! forms_module {
    ($name:ident, $r:ty, $b:expr) => {
        pub mod $name {
            use super::*;
            pub type F = FBig<$r, $b>;
            impl Mk for F {
                fn mk(v: &Val) -> Option<Self> {
                    match v {
                        Val::F(s, e, p) => Some(FBig::from_repr(Repr::<$b>::new(ref_to_i(s), *e as isize), Context::<$r>::new(*p))),
                        Val::Inf(pos) => Some(if *pos { FBig::INFINITY } else { FBig::NEG_INFINITY }),
                        _ => None,
                    }
                }
            }
            include!("gen_forms.rs");
        }
    };
}
forms_module!(f10, mode::HalfAway, 10);
forms_module!(f2, mode::Zero, 2);

#[derive(Clone, Copy, PartialEq, Eq, Debug)]
pub enum Kind {
    Int,
    Ratio,
    Float,
}
pub fn kind_of(f: &Form) -> Kind {
    let d = f.desc;
    let has = |t: &str| d.split(|c: char| !(c.is_alphanumeric() || c == '_')).any(|w| w == t);
    if has("F") {
        Kind::Float
    } else if has("RBig") || has("Relaxed") {
        Kind::Ratio
    } else {
        Kind::Int
    }
}

fn run_family_sweep(ctx: &mut Ctx, name: &str, forms: &[&Form], vals: &[Val], kind: Kind) {
    // group forms into families
    let mut fams: BTreeMap<(String, String), Vec<&Form>> = BTreeMap::new();
    for f in forms {
        fams.entry((f.fam.to_string(), f.out.to_string())).or_default().push(f);
    }
    let fam_list: Vec<(&(String, String), &Vec<&Form>)> = fams.iter().collect();
    let n = vals.len() as u64;
    let nf = fam_list.len() as u64;
    ctx.bound(&format!("{}_forms", name), forms.len() as u64);
    ctx.bound(&format!("{}_families", name), nf);
    let (fl, vr) = (&fam_list, vals);
    ctx.sweep(name, n * n * nf, |i, rec| {
        let [ia, ib, fi] = unflatten(i, [n, n, nf]);
        let (a, b) = (&vr[ia], &vr[ib]);
        let ((fam, outty), fs) = fl[fi];
        let unary = fs[0].arity == 1;
        if unary && ib != 0 {
            return;
        }
        if (fam == "shl" || fam == "shr") && b.int().map_or(false, |x| x.abs() > BigInt::from(300)) {
            rec.hit("pruned:huge-shift");
            return;
        }
        let mut outcomes: Vec<(Out, &Form, Option<String>)> = vec![];
        for f in fs.iter() {
            if let Some(r) = (f.f)(a, b) {
                rec.step();
                match r {
                    Ok(o) => outcomes.push((o, f, None)),
                    Err(p) => outcomes.push((Out::Panic, f, Some(p))),
                }
            }
        }
        if outcomes.len() < 2 {
            if outcomes.len() == 1 {
                rec.hit("single-applicable-form");
            }
            return;
        }
        rec.nontrivial();
        // majority outcome
        let mut count: BTreeMap<&Out, usize> = BTreeMap::new();
        for (o, _, _) in &outcomes {
            *count.entry(o).or_insert(0) += 1;
        }
        if count.len() > 1 {
            let major = count.iter().max_by_key(|(_, c)| **c).map(|(o, _)| (*o).clone()).unwrap();
            for (o, f, p) in &outcomes {
                if *o != major {
                    let okind = if *o == Out::Panic { "panics-alone" } else if major == Out::Panic { "returns-while-others-panic" } else { "differs" };
                    rec.fail(
                        format!("{}|{}:{}|{}|{}", P, fam, outty, okind, f.desc),
                        format!("{} on ({}, {})", f.desc, a.show(), if unary { "-".into() } else { b.show() }),
                        match p {
                            Some(m) => format!("panic: {}", m),
                            None => format!("{:?}", o),
                        },
                        format!("{:?} (given by {} of {} forms of the family)", major, count[&major], outcomes.len()),
                    );
                }
            }
        } else if outcomes[0].0 == Out::Panic {
            rec.hit("all-forms-panic");
        } else {
            rec.hit("all-forms-agree");
        }
        let _ = kind;
        rec.sample(|| format!("{} forms of {}:{} on ({}, {})", outcomes.len(), fam, outty, a.show(), b.show()));
    });
    ctx.require_classes(name, &["all-forms-agree", "all-forms-panic"]);
}

pub fn run(ctx: &mut Ctx) {
    ctx.rule = "the form table is generated from the rustdoc JSON of the tree (every impl of an operator / dashu_base ops trait on UBig, IBig, RBig, Relaxed, FBig and primitives: owned/borrowed operands, assign forms, mixed types); forms are grouped into families (operation, output type) and for EVERY ordered operand pair of the universe (integers: all <=2-word I3 values + representative 3-word values + small shift counts, and a shape universe of 3..11-word (thorough: ..75-word) operands x 5 word patterns x sign; rationals: Q(6,6) + integers; floats: F(10,2,3) / F(2,3,4) x 3 precisions) all applicable forms of a family must return the same normalised value, or all panic. non-trivial = at least two forms applicable".into();
    ctx.assume("two forms 'agree' when their results are equal as exact values (floats: value and precision; Relaxed: value); for extended gcd only g is compared (Bezout coefficients are not unique by specification)");
    let all10 = f10::forms();
    let all2 = f2::forms();
    ctx.bound("generated_forms", all10.len() as u64);
    ctx.bound("impls_not_generated(hand-written groups or outside the number types)", f10::UNCOVERED.len() as u64);
    let unexpected: Vec<&&str> = f10::UNCOVERED.iter().filter(|u| !u.contains("[hand-written group]") && !u.contains("Rounding") && !u.contains("crate::repr::Repr")).collect();
    if !unexpected.is_empty() {
        ctx.machinery(format!("form generator could not classify {} impls: {:?}", unexpected.len(), unexpected));
    }

    // integer universe
    let mut ints: Vec<BigInt> = signed(&closed_mags(&A9, 2));
    for v in [3i64, 5, 7, 10, 63, 64, 65, 100, 127, 128, 129, 200, 255, 256, -3, -64, -200] {
        ints.push(BigInt::from(v));
    }
    let i3 = signed(&i3_mags());
    let step = ctx.pick(37, 7);
    for (k, v) in i3.iter().enumerate() {
        if word_len(v.magnitude()) == 3 && k % step == 0 {
            ints.push(v.clone());
        }
    }
    ints.sort();
    ints.dedup();
    let int_vals: Vec<Val> = ints.iter().map(|v| Val::Q(Rat::int(v.clone()))).collect();
    ctx.bound("int_values", int_vals.len() as u64);
    let int_forms: Vec<&Form> = all10.iter().filter(|f| kind_of(f) == Kind::Int).collect();
    run_family_sweep(ctx, "int.forms", &int_forms, &int_vals, Kind::Int);

    // shape universe: long operands of unequal length whose carries / borrows ripple through
    // zero or all-ones words and whose length meets the other operand's buffer capacity
    // (fresh capacity = len + len/8 + 2): the in-place forms differ from the allocating ones here
    let lens: Vec<usize> = if ctx.tier == Tier::Quick { vec![3, 4, 5, 6, 7, 8, 9, 11] } else { (3..=24).chain([33, 34, 39, 65, 75]).collect() };
    let mut shp: Vec<BigInt> = vec![];
    for &l in &lens {
        for pat in ["ones", "top1p1", "sparse", "topmax_low0", "lcgA"] {
            let m = BigInt::from(shape(l, pat, 0));
            shp.push(-m.clone());
            shp.push(m);
        }
    }
    shp.sort();
    shp.dedup();
    let shape_vals: Vec<Val> = shp.iter().map(|v| Val::Q(Rat::int(v.clone()))).collect();
    ctx.bound("int_shape_values", shape_vals.len() as u64);
    let shape_forms: Vec<&Form> = int_forms.iter().copied().filter(|f| !matches!(f.fam, "shl" | "shr")).collect();
    run_family_sweep(ctx, "int.forms.shapes", &shape_forms, &shape_vals, Kind::Int);

    // rationals
    let qn: i64 = ctx.pick(6, 9);
    let mut qvals: Vec<Val> = vec![];
    for d in 1..=qn {
        for n in -qn..=qn {
            if num_integer::Integer::gcd(&n, &d) == 1 {
                qvals.push(Val::Q(Rat::new(BigInt::from(n), BigInt::from(d))));
            }
        }
    }
    for v in [BigInt::from(u64::MAX), -(BigInt::one() << 64u32), (BigInt::one() << 128u32) + 1] {
        qvals.push(Val::Q(Rat::int(v.clone())));
        qvals.push(Val::Q(Rat::new(v, BigInt::from(7))));
    }
    let ratio_forms: Vec<&Form> = all10.iter().filter(|f| kind_of(f) == Kind::Ratio).collect();
    run_family_sweep(ctx, "ratio.forms", &ratio_forms, &qvals, Kind::Ratio);

    // floats: operands are floats of the module's base with 3 precisions, plus integers
    fn fvals(base: u32, p: u32, e: i64, precs: &[usize]) -> Vec<Val> {
        let mut v = vec![];
        for (s, ex) in f_universe(base, p, e) {
            let d = digits_b(&s, base);
            for (k, &pr) in precs.iter().enumerate() {
                // full universe at the middle precision, one-digit significands at the others
                if (pr == 0 || d <= pr) && (k == 1 || d <= 1) {
                    v.push(Val::F(s.clone(), ex, pr));
                }
            }
        }
        for k in [0i64, 1, -1, 2, 7, -12, 100, 255] {
            v.push(Val::Q(Rat::from_i(k)));
        }
        v
    }
    let float_forms10: Vec<&Form> = all10.iter().filter(|f| kind_of(f) == Kind::Float).collect();
    let fv10 = fvals(10, 2, ctx.pick(1, 2), &[0, 2, 5]);
    run_family_sweep(ctx, "float.forms.B10.HalfAway", &float_forms10, &fv10, Kind::Float);
    let float_forms2: Vec<&Form> = all2.iter().filter(|f| kind_of(f) == Kind::Float).collect();
    let fv2 = fvals(2, 3, ctx.pick(3, 5), &[0, 3, 8]);
    run_family_sweep(ctx, "float.forms.B2.Zero", &float_forms2, &fv2, Kind::Float);

    hand_written(ctx, &ints);
}

fn hand_written(ctx: &mut Ctx, ints: &[BigInt]) {
    // Reduced ring elements: every ownership form of + - * / and neg, Sign multiplication,
    // methods vs operator chains, clone / clone_from independence
    let moduli: Vec<BigInt> = vec![BigInt::from(1), BigInt::from(7), BigInt::from(1u64 << 63), BigInt::from(u64::MAX), (BigInt::one() << 64u32) + 13, BigInt::from(shape(3, "lcgA", 0)) | BigInt::one()];
    let small: Vec<&BigInt> = ints.iter().filter(|v| word_len(v.magnitude()) <= 2).collect();
    let (nm, ns) = (moduli.len() as u64, small.len() as u64);
    let (mr, sr) = (&moduli, &small);
    ctx.sweep("reduced.forms", nm * ns * ns, |i, rec| {
        let [mi, ia, ib] = unflatten(i, [nm, ns, ns]);
        let ring = ConstDivisor::new(ref_to_u(mr[mi].magnitude()));
        let (a, b) = (ring.reduce(ref_to_i(sr[ia])), ring.reduce(ref_to_i(sr[ib])));
        let case = || format!("mod {}: ({}, {})", mr[mi], sr[ia], sr[ib]);
        macro_rules! fam {
            ($name:expr, $op:tt, $opa:tt) => {{
                let rs: Vec<(&str, Result<UBig, String>)> = vec![
                    ("val,val", guard(|| (a.clone() $op b.clone()).residue())),
                    ("ref,ref", guard(|| (&a $op &b).residue())),
                    ("val,ref", guard(|| (a.clone() $op &b).residue())),
                    ("ref,val", guard(|| (&a $op b.clone()).residue())),
                    ("assign val", guard(|| { let mut t = a.clone(); t $opa b.clone(); t.residue() })),
                    ("assign ref", guard(|| { let mut t = a.clone(); t $opa &b; t.residue() })),
                ];
                rec.steps(rs.len() as u64);
                let first = rs[0].1.clone().ok();
                for (form, r) in &rs {
                    if r.clone().ok() != first {
                        rec.fail(format!("{}|Reduced::{}|forms-disagree|{}", P, $name, form), case(), format!("{:?}", r), format!("{:?}", rs[0].1));
                    }
                }
                if first.is_none() { rec.hit("all-forms-panic"); } else { rec.hit("all-forms-agree"); }
            }};
        }
        fam!("add", +, +=);
        fam!("sub", -, -=);
        fam!("mul", *, *=);
        fam!("div", /, /=);
        rec.step();
        if guard(|| (-a.clone()).residue()).ok() != guard(|| (-&a).residue()).ok() {
            rec.fail(format!("{}|Reduced::neg|forms-disagree|ref", P), case(), "-&a differs from -a", "equal");
        }
        rec.nontrivial();
        rec.sample(case);
    });
    ctx.require_classes("reduced.forms", &["all-forms-agree", "all-forms-panic"]);

    let n = ints.len() as u64;
    let ir = ints;
    ctx.sweep("methods.vs.operators+clone", n * n, |i, rec| {
        let (ra, rb) = (&ir[(i / n) as usize], &ir[(i % n) as usize]);
        let (a, b) = (ref_to_i(ra), ref_to_i(rb));
        let case = || format!("({}, {})", hex(ra), hex(rb));
        if i % n == 0 {
            // unary groups, once per a
            let sq = guard(|| IBig::from(a.sqr()));
            let groups: Vec<(&str, Result<IBig, String>, Result<IBig, String>)> = vec![
                ("IBig::sqr vs a*a", sq.clone(), guard(|| &a * &a)),
                ("IBig::pow(2) vs a*a", guard(|| a.pow(2)), guard(|| &a * &a)),
                ("IBig::cubic vs a*a*a", guard(|| a.cubic()), guard(|| &a * &a * &a)),
                ("IBig::pow(3) vs a*a*a", guard(|| a.pow(3)), guard(|| &a * &a * &a)),
                ("IBig*Sign::Negative vs -a", guard(|| a.clone() * Sign::Negative), guard(|| -a.clone())),
                ("Sign::Negative*IBig vs -a", guard(|| Sign::Negative * a.clone()), guard(|| -&a)),
                ("IBig*=Sign::Negative vs -a", guard(|| { let mut t = a.clone(); t *= Sign::Negative; t }), guard(|| -&a)),
                ("IBig*Sign::Positive vs a", guard(|| a.clone() * Sign::Positive), Ok(a.clone())),
            ];
            rec.steps(groups.len() as u64);
            for (g, x, y) in groups {
                if x.clone().ok().map(|v| i_to_ref(&v)) != y.clone().ok().map(|v| i_to_ref(&v)) {
                    rec.fail(format!("{}|{}|forms-disagree|int", P, g), case(), format!("{:?}", x.map(|v| hex(&i_to_ref(&v)))), format!("{:?}", y.map(|v| hex(&i_to_ref(&v)))));
                }
            }
            if ra.sign() != NSign::Minus {
                let u = ref_to_u(ra.magnitude());
                rec.steps(3);
                if guard(|| u.sqr()).ok() != guard(|| &u * &u).ok() || guard(|| u.cubic()).ok() != guard(|| &u * &u * &u).ok() || guard(|| u.clone() * Sign::Negative).ok() != guard(|| -IBig::from(u.clone())).ok() {
                    rec.fail(format!("{}|UBig::sqr/cubic/Sign vs operators|forms-disagree|int", P), case(), "method differs from the operator chain", "equal");
                }
            }
        }
        // clone_from of a onto a value holding b: equal to a, independent of a
        rec.steps(2);
        let r = guard(|| {
            let src = a.clone();
            let mut t = b.clone();
            t.clone_from(&src);
            let eq1 = t == src && i_to_ref(&t) == *ra;
            // pointer ranges disjoint for heap values
            let (pt, ps) = (t.as_sign_words().1.as_ptr() as usize, src.as_sign_words().1.as_ptr() as usize);
            let len = src.as_sign_words().1.len() * std::mem::size_of::<dashu_int::Word>();
            let disjoint = len == 0 || pt + len <= ps || ps + len <= pt;
            t += IBig::ONE;
            t <<= 70usize;
            let unchanged = i_to_ref(&src) == *ra;
            let c = src.clone();
            let eq2 = c == src;
            drop(src);
            let still = i_to_ref(&c) == *ra;
            (eq1, disjoint, unchanged, eq2, still)
        });
        match r {
            Ok((true, true, true, true, true)) => rec.hit("clone-independent"),
            Ok(x) => rec.fail(format!("{}|IBig::clone_from/clone|not-equal-or-not-independent|int", P), case(), format!("(equal, disjoint, source-unchanged, clone-equal, clone-survives-drop) = {:?}", x), "all true"),
            Err(p) => rec.fail(format!("{}|IBig::clone_from/clone|panic|int", P), case(), p, "no panic"),
        }
        if !ra.is_zero() && !rb.is_zero() {
            rec.nontrivial();
        }
        rec.sample(case);
    });
    clone_floats::<mode::HalfAway, 10>(ctx, "clone.FBig.B10");
    clone_floats::<mode::Zero, 2>(ctx, "clone.FBig.B2");
    clone_ratios(ctx);
    let _ = (BigInt::zero().to_i64(), RBig::ZERO);
}

/// clone_from onto any previous value (other precision, other length, other sign) must give a value
/// indistinguishable from a fresh clone: same value, same precision, same ordering against probes,
/// same results of further arithmetic, and independent of the source
fn clone_floats<R: dashu_float::round::Round, const B: dashu_int::Word>(ctx: &mut Ctx, name: &str) {
    let mut vals: Vec<(i64, i64, usize)> = vec![];
    for s in [0i64, 1, -1, 5, 12, 99, 123456789, -987654321, 1 << 40] {
        for e in [-3i64, 0, 5] {
            for p in [0usize, 1, 3, 9, 20, 64] {
                if p == 0 || digits_b(&BigInt::from(s), B as u32) <= p {
                    vals.push((s, e, p));
                }
            }
        }
    }
    let n = vals.len() as u64;
    let vr = &vals;
    let mkf = |&(s, e, p): &(i64, i64, usize)| FBig::<R, B>::from_repr(Repr::<B>::new(IBig::from(s), e as isize), Context::<R>::new(p));
    ctx.sweep(name, n * n, |i, rec| {
        let (a, b) = (mkf(&vr[(i / n) as usize]), mkf(&vr[(i % n) as usize]));
        let case = || format!("{:?}.clone_from({:?})", vr[(i % n) as usize], vr[(i / n) as usize]);
        rec.step();
        let r = guard(|| {
            let fresh = a.clone();
            let mut t = b.clone();
            t.clone_from(&a);
            let same_repr = t.repr() == fresh.repr() && t.precision() == fresh.precision() && format!("{:?}", t) == format!("{:?}", fresh);
            // same behaviour against probes: ordering and one arithmetic step
            let mut same_behaviour = true;
            for probe in vr.iter().step_by(5) {
                let c = mkf(probe);
                same_behaviour &= t.cmp(&c) == fresh.cmp(&c) && c.cmp(&t) == c.cmp(&fresh) && t.partial_cmp(&c) == fresh.partial_cmp(&c) && (t == c) == (fresh == c);
                let (x, y) = (&t + &c, &fresh + &c);
                same_behaviour &= x.repr() == y.repr() && x.precision() == y.precision();
                let (x, y) = (&t * &c, &fresh * &c);
                same_behaviour &= x.repr() == y.repr() && x.precision() == y.precision();
            }
            // independence: mutating the clone leaves the source alone
            let before = format!("{:?}", a);
            t += FBig::<R, B>::ONE;
            let independent = format!("{:?}", a) == before;
            (same_repr, same_behaviour, independent)
        });
        match r {
            Ok((true, true, true)) => rec.hit("clone-indistinguishable"),
            Ok(x) => rec.fail(format!("{}|FBig::clone_from|differs-from-clone|B{}", P, B), case(), format!("(same value+precision, same behaviour against probes, independent) = {:?}", x), "all true"),
            Err(p) => rec.fail(format!("{}|FBig::clone_from|panic|B{}", P, B), case(), p, "no panic"),
        }
        if vr[(i / n) as usize].2 != vr[(i % n) as usize].2 {
            rec.hit("different-precisions");
        }
        rec.nontrivial();
        rec.sample(case);
    });
    ctx.require_classes(name, &["clone-indistinguishable", "different-precisions"]);
}

fn clone_ratios(ctx: &mut Ctx) {
    let mut vals: Vec<(BigInt, BigInt)> = vec![];
    let nums = [BigInt::zero(), BigInt::one(), BigInt::from(-7), BigInt::from(u64::MAX), -(BigInt::one() << 130u32) + 5, BigInt::from(shape(5, "lcgA", 0))];
    let dens = [BigInt::one(), BigInt::from(3), BigInt::from(1u64 << 40), (BigInt::one() << 129u32) - 1, BigInt::from(shape(4, "lcgB", 0)) | BigInt::one()];
    for nu in &nums {
        for de in &dens {
            vals.push((nu.clone(), de.clone()));
        }
    }
    let n = vals.len() as u64;
    let vr = &vals;
    ctx.sweep("clone.RBig+Relaxed+UBig", n * n, |i, rec| {
        let ((an, ad), (bn, bd)) = (&vr[(i / n) as usize], &vr[(i % n) as usize]);
        let case = || format!("({}/{}).clone_from({}/{})", bn, bd, an, ad);
        rec.step();
        let r = guard(|| {
            let (a, b) = (RBig::from_parts(ref_to_i(an), ref_to_u(ad.magnitude())), RBig::from_parts(ref_to_i(bn), ref_to_u(bd.magnitude())));
            let (la, lb) = (Relaxed::from_parts(ref_to_i(an), ref_to_u(ad.magnitude())), Relaxed::from_parts(ref_to_i(bn), ref_to_u(bd.magnitude())));
            let (ua, ub) = (ref_to_u(an.magnitude()), ref_to_u(bn.magnitude()));
            let mut t = b.clone();
            t.clone_from(&a);
            let mut lt = lb.clone();
            lt.clone_from(&la);
            let mut ut = ub.clone();
            ut.clone_from(&ua);
            let same = t == a && t.numerator() == a.numerator() && t.denominator() == a.denominator() && lt == la && lt.numerator() == la.numerator() && lt.denominator() == la.denominator() && ut == ua && (&t + &b) == (&a + &b) && (&ut * &ub) == (&ua * &ub);
            let before = (a.to_string(), la.to_string(), ua.to_string());
            t += RBig::ONE;
            lt += Relaxed::ONE;
            ut += UBig::ONE;
            (same, before == (a.to_string(), la.to_string(), ua.to_string()))
        });
        match r {
            Ok((true, true)) => rec.hit("clone-indistinguishable"),
            Ok(x) => rec.fail(format!("{}|RBig/Relaxed/UBig::clone_from|differs-from-clone|ratio", P), case(), format!("(same, independent) = {:?}", x), "all true"),
            Err(p) => rec.fail(format!("{}|RBig/Relaxed/UBig::clone_from|panic|ratio", P), case(), p, "no panic"),
        }
        rec.nontrivial();
        rec.sample(case);
    });
    ctx.require_classes("clone.RBig+Relaxed+UBig", &["clone-indistinguishable"]);
}
